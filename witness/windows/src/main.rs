//! Bounded stand-in / witness finder for the window units C12 and C13 (DESIGN §2.5).  Exhaustive native differential of the REAL plain
//! windows of varpulis-runtime against reference models written from the property statements, over all streams of <= LEN events with time
//! stamps in 0..=TMAX seconds (in-order streams with ties for the time-based rules; out-of-order streams too for the partition rule), all
//! sizes / gaps / slides in 1..=3, with watermarks interleaved.  It DECIDES NOTHING unless it finds a failing input.
use chrono::{DateTime, Duration, Utc};
use std::sync::Arc;
use varpulis_core::Value;
use varpulis_runtime::event::Event;
use varpulis_runtime::window::{CountWindow, SessionWindow, SlidingCountWindow, SlidingWindow, TumblingWindow};

fn base() -> DateTime<Utc> { DateTime::from_timestamp(1_700_000_000, 0).unwrap() }
fn at(t: i64) -> DateTime<Utc> { base() + Duration::seconds(t) }
fn ev(id: usize, t: i64) -> Arc<Event> { Arc::new(Event::new("T").with_timestamp(at(t)).with_field("id", id as i64)) }
fn ids(v: &[Arc<Event>]) -> Vec<usize> { v.iter().map(|e| match e.get("id") { Some(Value::Int(n)) => *n as usize, _ => usize::MAX }).collect() }

/// an input step: an arriving event with time stamp t, or a watermark at t
#[derive(Clone, Copy, Debug, PartialEq)]
enum Step { Ev(i64), Wm(i64) }

fn streams(len: usize, tmax: i64, in_order: bool, watermarks: bool) -> Vec<Vec<Step>> {
    let mut out: Vec<Vec<Step>> = vec![vec![]];
    let mut layer: Vec<Vec<Step>> = vec![vec![]];
    for _ in 0..len {
        let mut next = Vec::new();
        for s in &layer {
            let lo = if in_order { s.iter().map(|x| match x { Step::Ev(t) | Step::Wm(t) => *t }).max().unwrap_or(0) } else { 0 };
            for t in lo..=tmax {
                let mut a = s.clone(); a.push(Step::Ev(t)); next.push(a);
                if watermarks { let mut b = s.clone(); b.push(Step::Wm(t)); next.push(b); }
            }
        }
        out.extend(next.iter().cloned());
        layer = next;
    }
    out
}
fn fail(what: &str, detail: String) -> ! { println!("WITNESS window={} {}", what, detail); std::process::exit(1) }

/// partition rule shared by count / tumbling / session: emitted windows ++ what is still buffered == arrivals, in order, nothing twice
fn check_partition(what: &str, cfg: String, s: &[Step], emitted: &[Vec<usize>], buffered: &[usize]) {
    let mut all: Vec<usize> = emitted.iter().flatten().copied().collect();
    all.extend_from_slice(buffered);
    let n = s.iter().filter(|x| matches!(x, Step::Ev(_))).count();
    if all != (0..n).collect::<Vec<_>>() {
        fail(what, format!("{} stream={:?}: emitted windows {:?} + still buffered {:?} is not the arrival sequence 0..{} (an event was lost, duplicated or reordered)", cfg, s, emitted, buffered, n));
    }
}

fn main() {
    let class = std::env::args().nth(1).unwrap_or_else(|| "all".into());
    let on = |c: &str| class == "all" || class == c;
    let mut checked = 0u64;
    if on("C12") {
        // ---- count window: closes with exactly `count` events
        for count in 1..=3usize { for n in 0..=7usize {
            let mut w = CountWindow::new(count); let mut emitted = Vec::new();
            for i in 0..n { if let Some(c) = w.add_shared(ev(i, i as i64)) { if c.len() != count { fail("count", format!("count={} emitted a window of {} events", count, c.len())); } emitted.push(ids(&c)); } }
            let rest = ids(&w.flush_shared());
            let steps: Vec<Step> = (0..n).map(|i| Step::Ev(i as i64)).collect();
            check_partition("count", format!("count={}", count), &steps, &emitted, &rest);
            checked += 1;
        } }
        // ---- count window with columnar flushes in between: every window that closes still holds exactly `count` events
        for count in 1..=3usize { for pre in 0..=3usize { for post in 0..=7usize {
            let mut w = CountWindow::new(count);
            let mut k = 0usize;
            for _ in 0..pre { if let Some(c) = w.add_shared(ev(k, k as i64)) { if c.len() != count { fail("count", format!("count={} emitted a window of {} events", count, c.len())); } } k += 1; }
            let _ = w.flush_columnar();
            let mut since = 0usize;
            for _ in 0..post {
                let r = w.add_shared(ev(k, k as i64)); k += 1; since += 1;
                match (&r, since == count) {
                    (Some(c), true) => { if c.len() != count { fail("count", format!("count={} after {} events and a flush_columnar: emitted a window of {} events", count, pre, c.len())); } since = 0; }
                    (None, false) => {}
                    (Some(c), false) => fail("count", format!("count={}: {} events, flush_columnar, then {} more: a window of {} events closed early", count, pre, since, c.len())),
                    (None, true) => fail("count", format!("count={}: {} events, flush_columnar, then {} more: no window closed", count, pre, since)),
                }
            }
            checked += 1;
        } } }
        // ---- tumbling window
        for dur in 1..=3i64 {
            for (in_order, wm) in [(true, true), (false, false)] {
                for s in streams(if wm { 4 } else { 5 }, 5, in_order, wm) {
                    let mut w = TumblingWindow::new(Duration::seconds(dur));
                    let mut emitted: Vec<Vec<usize>> = Vec::new(); let mut times: Vec<i64> = Vec::new(); let mut k = 0usize;
                    // reference (in-order streams): window start = first event of the window (or the closing watermark); closes when t >= start + dur
                    let mut m_start: Option<i64> = None; let mut m_buf: Vec<usize> = Vec::new(); let mut m_emitted: Vec<Vec<usize>> = Vec::new();
                    for st in &s {
                        match *st {
                            Step::Ev(t) => {
                                times.push(t);
                                if let Some(c) = w.add_shared(ev(k, t)) { emitted.push(ids(&c)); }
                                if m_start.is_none() { m_start = Some(t); }
                                if t >= m_start.unwrap() + dur { m_emitted.push(std::mem::take(&mut m_buf)); m_start = Some(t); }
                                m_buf.push(k);
                                k += 1;
                            }
                            Step::Wm(t) => {
                                if let Some(c) = w.advance_watermark(at(t)) { emitted.push(ids(&c)); }
                                if let Some(st0) = m_start { if t >= st0 + dur && !m_buf.is_empty() { m_emitted.push(std::mem::take(&mut m_buf)); m_start = Some(t); } }
                            }
                        }
                    }
                    let rest = ids(&w.flush_shared());
                    check_partition("tumbling", format!("duration={}s", dur), &s, &emitted, &rest);
                    if in_order {
                        let mut wins = emitted.clone(); if !rest.is_empty() { wins.push(rest.clone()); }
                        for win in &wins { if let Some(&f) = win.first() { for &i in win { if times[i] >= times[f] + dur {
                            fail("tumbling", format!("duration={}s stream={:?}: window {:?} holds event #{} (t={}) not earlier than its first event (t={}) + duration", dur, s, win, i, times[i], times[f])); } } } }
                        let mut mm = m_emitted.clone(); mm.push(m_buf.clone());
                        let mut got = emitted.clone(); got.push(rest.clone());
                        if mm != got { fail("tumbling", format!("duration={}s stream={:?}: windows {:?}, reference {:?}", dur, s, got, mm)); }
                    }
                    checked += 1;
                }
            }
        }
        // ---- session window
        for gap in 1..=3i64 {
            for (in_order, wm) in [(true, true), (false, false)] {
                for s in streams(if wm { 4 } else { 5 }, 6, in_order, wm) {
                    let mut w = SessionWindow::new(Duration::seconds(gap));
                    let mut emitted: Vec<Vec<usize>> = Vec::new(); let mut times: Vec<i64> = Vec::new(); let mut k = 0usize;
                    let mut m_last: Option<i64> = None; let mut m_buf: Vec<usize> = Vec::new(); let mut m_emitted: Vec<Vec<usize>> = Vec::new();
                    for st in &s {
                        match *st {
                            Step::Ev(t) => {
                                times.push(t);
                                if let Some(c) = w.add_shared(ev(k, t)) { emitted.push(ids(&c)); }
                                if let Some(l) = m_last { if t - l > gap { m_emitted.push(std::mem::take(&mut m_buf)); } }
                                m_buf.push(k); m_last = Some(t);
                                k += 1;
                            }
                            Step::Wm(t) => {
                                if let Some(c) = w.advance_watermark(at(t)) { emitted.push(ids(&c)); }
                                if let Some(l) = m_last { if t >= l + gap && !m_buf.is_empty() { m_emitted.push(std::mem::take(&mut m_buf)); m_last = None; } }
                            }
                        }
                    }
                    let rest = ids(&w.flush_shared());
                    check_partition("session", format!("gap={}s", gap), &s, &emitted, &rest);
                    if in_order {
                        let mut wins = emitted.clone(); if !rest.is_empty() { wins.push(rest.clone()); }
                        for win in &wins { for p in win.windows(2) { if times[p[1]] - times[p[0]] > gap {
                            fail("session", format!("gap={}s stream={:?}: session {:?} holds events #{} and #{} that are {}s apart", gap, s, win, p[0], p[1], times[p[1]] - times[p[0]])); } } }
                        let mut mm = m_emitted.clone(); mm.push(m_buf.clone());
                        let mut got = emitted.clone(); got.push(rest.clone());
                        if mm != got { fail("session", format!("gap={}s stream={:?}: sessions {:?}, reference {:?}", gap, s, got, mm)); }
                    }
                    checked += 1;
                }
            }
        }
    }
    if on("C13") {
        // ---- count-sliding window: exactly the last N events; emission when full and `slide` arrivals since the previous one
        for size in 1..=3usize { for slide in 1..=3usize { for n in 0..=9usize {
            let mut w = SlidingCountWindow::new(size, slide);
            let mut since = 0usize;
            for i in 0..n {
                let r = w.add_shared(ev(i, i as i64));
                since += 1;
                let full = i + 1 >= size;
                let due = full && since >= slide;
                match (&r, due) {
                    (Some(c), true) => { let want: Vec<usize> = (i + 1 - size..=i).collect(); if ids(c) != want { fail("count-sliding", format!("size={} slide={} arrival #{}: emitted {:?}, the last {} events are {:?}", size, slide, i, ids(c), size, want)); } since = 0; }
                    (None, false) => {}
                    (Some(c), false) => fail("count-sliding", format!("size={} slide={} arrival #{}: emitted {:?} although no emission is due", size, slide, i, ids(c))),
                    (None, true) => fail("count-sliding", format!("size={} slide={} arrival #{}: no emission although the window is full and {} arrivals have passed", size, slide, i, since)),
                }
            }
            checked += 1;
        } } }
        // ---- time-sliding window, in-order streams with ties
        for size in 1..=3i64 { for slide in 1..=3i64 {
            for s in streams(5, 6, true, false) {
                let mut w = SlidingWindow::new(Duration::seconds(size), Duration::seconds(slide));
                let mut times: Vec<i64> = Vec::new(); let mut last_emit: Option<i64> = None;
                for (i, st) in s.iter().enumerate() {
                    let Step::Ev(t) = *st else { continue };
                    times.push(t);
                    let r = w.add_shared(ev(i, t));
                    let due = match last_emit { None => true, Some(l) => t >= l + slide };
                    let want: Vec<usize> = (0..=i).filter(|&j| times[j] >= t - size).collect();
                    match (&r, due) {
                        (Some(c), true) => { if ids(c) != want { fail("time-sliding", format!("size={}s slide={}s stream={:?} arrival #{}: emitted {:?}, events within the window size of the trigger are {:?}", size, slide, s, i, ids(c), want)); } last_emit = Some(t); }
                        (None, false) => {}
                        (Some(c), false) => fail("time-sliding", format!("size={}s slide={}s stream={:?} arrival #{} (t={}): emitted {:?} although the slide interval has not elapsed since the previous emission (t={:?})", size, slide, s, i, t, ids(c), last_emit)),
                        (None, true) => fail("time-sliding", format!("size={}s slide={}s stream={:?} arrival #{} (t={}): no emission although the slide interval has elapsed since t={:?}", size, slide, s, i, t, last_emit)),
                    }
                }
                checked += 1;
            }
        } }
    }
    println!("NO-WITNESS class={} checked={}", class, checked);
}
