//! Witness finder for the ZDD Verus units (DESIGN §2.5).  It DECIDES NOTHING: when Verus refutes an obligation it
//! searches small universes for a concrete input on which the real `varpulis-zdd` API disagrees with explicit sets,
//! so that the violation report can carry a failing input.
use std::collections::BTreeSet;
use varpulis_zdd::arena::{ZddArena, ZddHandle};
use varpulis_zdd::Zdd;

type Fam = BTreeSet<BTreeSet<u32>>;

fn subsets(nvars: u32) -> Vec<BTreeSet<u32>> {
    (0..(1u32 << nvars)).map(|m| (0..nvars).filter(|i| m >> i & 1 == 1).collect()).collect()
}
fn families(nvars: u32) -> Vec<Fam> {
    let subs = subsets(nvars);
    (0..(1u64 << subs.len())).map(|m| subs.iter().enumerate().filter(|(i, _)| m >> i & 1 == 1).map(|(_, s)| s.clone()).collect()).collect()
}
fn arena_build(a: &mut ZddArena, f: &Fam) -> ZddHandle {
    let mut h = a.empty();
    for s in f { let v: Vec<u32> = s.iter().copied().collect(); let x = a.from_set(&v); h = a.union(h, x); }
    h
}
fn arena_fam(a: &ZddArena, h: ZddHandle) -> Fam { a.iter(h).map(|v| v.into_iter().collect()).collect() }
fn zdd_build(f: &Fam) -> Zdd {
    let mut z = Zdd::empty();
    for s in f { let v: Vec<u32> = s.iter().copied().collect(); z = z.union(&Zdd::from_set(&v)); }
    z
}
fn zdd_fam(z: &Zdd) -> Fam { z.iter().map(|v| v.into_iter().collect()).collect() }
fn pwo(f: &Fam, v: u32) -> Fam { let mut r = f.clone(); for s in f { let mut t = s.clone(); t.insert(v); r.insert(t); } r }
fn prod(a: &Fam, b: &Fam) -> Fam { let mut r = Fam::new(); for x in a { for y in b { r.insert(x.union(y).copied().collect()); } } r }

fn report(what: &str, a: &Fam, b: Option<&Fam>, got: &Fam, want: &Fam) -> ! {
    println!("WITNESS op={} a={:?} b={:?} real_result={:?} expected={:?}", what, a, b, got, want);
    std::process::exit(1)
}

fn main() {
    let nvars: u32 = std::env::args().nth(1).and_then(|s| s.parse().ok()).unwrap_or(3);
    // property class: C06 (set algebra / count / contains / iteration), C07 (canonicity, from_set normalisation, gc), C03 (Kleene extension), all
    let class: String = std::env::args().nth(2).unwrap_or_else(|| "all".into());
    let on = |c: &str| class == "all" || class == c;
    let fams = families(nvars);
    let mut checked = 0u64;
    // shared arena: every operation runs against the same persistent caches
    let mut ar = ZddArena::new();
    let hs: Vec<ZddHandle> = fams.iter().map(|f| arena_build(&mut ar, f)).collect();
    for (f, h) in fams.iter().zip(&hs) {
        let got = arena_fam(&ar, *h);
        if on("C06") && &got != f { report("arena.build(from_set+union)/iter", f, None, &got, f); }
        if on("C06") && ar.count(*h) != f.len() { println!("WITNESS op=arena.count a={:?} real_result={} expected={}", f, ar.count(*h), f.len()); std::process::exit(1); }
        for s in subsets(nvars + 1) {
            let v: Vec<u32> = s.iter().copied().collect();
            if on("C06") && ar.contains(*h, &v) != f.contains(&s) { println!("WITNESS op=arena.contains a={:?} set={:?} real_result={}", f, s, ar.contains(*h, &v)); std::process::exit(1); }
        }
        for v in 0..=nvars {
            let r = ar.product_with_optional(*h, v);
            let got = arena_fam(&ar, r);
            let want = pwo(f, v);
            if on("C07") {
                // order / canonicity after an extension: the result must be THE node of its family
                if got.iter().any(|st| st.len() != st.iter().collect::<BTreeSet<_>>().len()) { println!("WITNESS op=arena.product_with_optional/order var={} a={:?} yields a set with a repeated variable: {:?}", v, f, got); std::process::exit(1); }
                let hw = arena_build(&mut ar, &want);
                if got == want && hw != r { println!("WITNESS op=arena.product_with_optional/canonicity var={} a={:?}: result root {:?} but the same family built from sets has root {:?}", v, f, r, hw); std::process::exit(1); }
                if got != want { println!("WITNESS op=arena.product_with_optional var={} a={:?} real_result={:?} expected={:?} (variable order / sharing broken)", v, f, got, want); std::process::exit(1); }
            }
            if (on("C03") || on("C06")) && got != want { println!("WITNESS op=arena.product_with_optional var={} a={:?} real_result={:?} expected={:?}", v, f, got, want); std::process::exit(1); }
            checked += 1;
        }
    }
    for (i, a) in fams.iter().enumerate() {
        for (j, b) in fams.iter().enumerate() {
            let (ha, hb) = (hs[i], hs[j]);
            let u = ar.union(ha, hb); let got = arena_fam(&ar, u); let want: Fam = a.union(b).cloned().collect();
            if on("C06") && got != want { report("arena.union", a, Some(b), &got, &want); }
            let u = ar.intersection(ha, hb); let got = arena_fam(&ar, u); let want: Fam = a.intersection(b).cloned().collect();
            if on("C06") && got != want { report("arena.intersection", a, Some(b), &got, &want); }
            let u = ar.difference(ha, hb); let got = arena_fam(&ar, u); let want: Fam = a.difference(b).cloned().collect();
            if on("C06") && got != want { report("arena.difference", a, Some(b), &got, &want); }
            checked += 3;
            // canonicity: same family => same root
            if on("C07") && (a == b) != (ha == hb) { println!("WITNESS op=arena.canonicity a={:?} b={:?} roots {:?} {:?}", a, b, ha, hb); std::process::exit(1); }
        }
    }
    // from_set normalises its argument: every vector (unsorted, with repeats) over the variables, length <= 3
    if on("C07") || on("C06") {
        let mut vecs: Vec<Vec<u32>> = vec![vec![]];
        for a in 0..nvars { vecs.push(vec![a]); for b in 0..nvars { vecs.push(vec![a, b]); for c in 0..nvars { vecs.push(vec![a, b, c]); } } }
        for v in &vecs {
            let set: BTreeSet<u32> = v.iter().copied().collect();
            let canon: Vec<u32> = set.iter().copied().collect();
            let h = ar.from_set(v);
            let hc = ar.from_set(&canon);
            let got = arena_fam(&ar, h);
            let want: Fam = std::iter::once(set.clone()).collect();
            if got != want { println!("WITNESS op=arena.from_set elements={:?} real_result={:?} expected={:?}", v, got, want); std::process::exit(1); }
            if on("C07") && h != hc { println!("WITNESS op=arena.from_set/canonicity elements={:?} root={:?} but from_set({:?}) root={:?} (same family, different roots)", v, h, canon, hc); std::process::exit(1); }
            let z = Zdd::from_set(v);
            let got = zdd_fam(&z);
            if got != want { println!("WITNESS op=zdd.from_set elements={:?} real_result={:?} expected={:?}", v, got, want); std::process::exit(1); }
            if on("C07") && z.node_count() != Zdd::from_set(&canon).node_count() { println!("WITNESS op=zdd.from_set/canonicity elements={:?} node_count={} but from_set({:?}) has {}", v, z.node_count(), canon, Zdd::from_set(&canon).node_count()); std::process::exit(1); }
            checked += 2;
        }
    }
    // gc keeps live families and canonicity (live handles overlap and repeat)
    if on("C07") {
        let mut live: Vec<ZddHandle> = hs.iter().step_by(3).copied().collect();
        let nl = live.len();
        live.push(hs[0]); live.push(hs[hs.len() - 1]); live.push(hs[3 % hs.len()]);
        // terminal handles kept alive across gc: the empty family (index 0) and the base family {{}} (index 1)
        let term_at = live.len();
        live.push(hs[0]); live.push(hs[1]);
        let (_st, new) = ar.gc(&live);
        for (k, h) in new.iter().take(nl).enumerate() {
            let got = arena_fam(&ar, *h);
            if got != fams[k * 3] { report("arena.gc", &fams[k * 3], None, &got, &fams[k * 3]); }
        }
        for (k, fi) in [(term_at, 0usize), (term_at + 1, 1usize)] {
            let got = arena_fam(&ar, new[k]);
            if got != fams[fi] { report("arena.gc (terminal handle kept alive)", &fams[fi], None, &got, &fams[fi]); }
        }
        for i in 0..nl { for j in 0..nl {
            if (fams[i * 3] == fams[j * 3]) != (new[i] == new[j]) { println!("WITNESS op=arena.gc/canonicity a={:?} b={:?} roots after gc {:?} {:?}", fams[i * 3], fams[j * 3], new[i], new[j]); std::process::exit(1); }
        } }
        if new[nl] != new[0] || (hs.len() > 3 && new[nl + 2] != new[1]) { println!("WITNESS op=arena.gc/canonicity repeated live handle got a different root after gc: {:?} vs {:?}", new[nl], new[0]); std::process::exit(1); }
        // rebuilding a live family in the collected arena must give the remapped root, and operations must still be right
        for k in 0..nl {
            let h2 = arena_build(&mut ar, &fams[k * 3]);
            if h2 != new[k] { println!("WITNESS op=arena.gc/canonicity family={:?} remapped root {:?} but rebuilt root {:?} (same family, two roots)", fams[k * 3], new[k], h2); std::process::exit(1); }
        }
        for i in 0..nl { for j in 0..nl {
            let u = ar.union(new[i], new[j]); let got = arena_fam(&ar, u); let want: Fam = fams[i * 3].union(&fams[j * 3]).cloned().collect();
            if got != want { report("arena.union-after-gc", &fams[i * 3], Some(&fams[j * 3]), &got, &want); }
            let hw = arena_build(&mut ar, &want);
            if hw != u { println!("WITNESS op=arena.union-after-gc/canonicity a={:?} b={:?} union root {:?} but rebuilt root {:?}", fams[i * 3], fams[j * 3], u, hw); std::process::exit(1); }
            checked += 1;
        } }
    }
    // standalone Zdd API (smaller universe for the quadratic part)
    if !(on("C06") || on("C03")) { println!("NO-WITNESS nvars={} class={} checked={}", nvars, class, checked); return; }
    let zn = nvars.min(2);
    let zf = families(zn);
    let zs: Vec<Zdd> = zf.iter().map(zdd_build).collect();
    for (f, z) in zf.iter().zip(&zs) {
        let got = zdd_fam(z);
        if &got != f { report("zdd.build/iter", f, None, &got, f); }
        if z.count() != f.len() { println!("WITNESS op=zdd.count a={:?} real_result={}", f, z.count()); std::process::exit(1); }
        for v in 0..=zn { let got = zdd_fam(&z.product_with_optional(v)); let want = pwo(f, v); if got != want { println!("WITNESS op=zdd.product_with_optional var={} a={:?} real_result={:?} expected={:?}", v, f, got, want); std::process::exit(1); } }
    }
    for (i, a) in zf.iter().enumerate() { for (j, b) in zf.iter().enumerate() {
        let got = zdd_fam(&zs[i].union(&zs[j])); let want: Fam = a.union(b).cloned().collect(); if got != want { report("zdd.union", a, Some(b), &got, &want); }
        let got = zdd_fam(&zs[i].intersection(&zs[j])); let want: Fam = a.intersection(b).cloned().collect(); if got != want { report("zdd.intersection", a, Some(b), &got, &want); }
        let got = zdd_fam(&zs[i].difference(&zs[j])); let want: Fam = a.difference(b).cloned().collect(); if got != want { report("zdd.difference", a, Some(b), &got, &want); }
        let got = zdd_fam(&zs[i].product(&zs[j])); let want = prod(a, b); if got != want { report("zdd.product", a, Some(b), &got, &want); }
        checked += 4;
    } }
    println!("NO-WITNESS nvars={} class={} checked={}", nvars, class, checked);
}
