//! Bounded stand-in for C31 (DESIGN §2.5): runs the REAL `validate_path` (security.rs is included by path, it only needs std) on
//! a real directory tree with symlinks pointing inside and outside the work directory, for every request made of <= 3 components
//! of a fixed vocabulary, relative and absolute.  Oracle (the property): an accepted path, fully resolved by the file system,
//! lies inside the resolved work directory.  It DECIDES NOTHING unless it finds a failing input.
#[path = "@REPO@/crates/varpulis-cli/src/security.rs"]
#[allow(dead_code, unused_imports)]
mod security;

use std::fs;
use std::os::unix::fs::symlink;
use std::path::{Path, PathBuf};

fn main() {
    let base = std::env::args().nth(1).map(PathBuf::from).unwrap_or_else(std::env::temp_dir).join(format!("vpv-c31-{}", std::process::id()));
    let _ = fs::remove_dir_all(&base);
    let work = base.join("work");
    let outside = base.join("outside");
    fs::create_dir_all(work.join("sub")).unwrap();
    fs::create_dir_all(&outside).unwrap();
    fs::write(work.join("a.txt"), b"in").unwrap();
    fs::write(work.join("sub").join("b.txt"), b"in").unwrap();
    fs::write(outside.join("secret.txt"), b"out").unwrap();
    // a sibling whose NAME has the work directory's name as a textual prefix
    fs::create_dir_all(base.join("work-evil")).unwrap();
    fs::write(base.join("work-evil").join("secret.txt"), b"out").unwrap();
    symlink(outside.join("secret.txt"), work.join("link_out_file")).unwrap(); // file symlink leaving the work dir
    symlink(&outside, work.join("link_out_dir")).unwrap(); // directory symlink leaving the work dir
    symlink(work.join("a.txt"), work.join("link_in_file")).unwrap(); // symlink staying inside
    symlink("../../outside/secret.txt", work.join("sub").join("rel_out")).unwrap(); // relative symlink leaving
    symlink(work.join("sub"), outside.join("back_in")).unwrap(); // outside -> inside
    // a sibling whose name differs from the work directory's only in letter case
    fs::create_dir_all(base.join("WORK")).unwrap();
    fs::write(base.join("WORK").join("secret.txt"), b"out").unwrap();
    // two cooperating links: `jump/..` is `nest` for the file system but `work` lexically; `nest/twin` is a regular file inside, `twin` leaves
    fs::create_dir_all(work.join("nest").join("deep")).unwrap();
    fs::write(work.join("nest").join("twin"), b"in").unwrap();
    symlink("nest/deep", work.join("jump")).unwrap();
    symlink("../outside/secret.txt", work.join("twin")).unwrap();
    let vocab = ["a.txt", "sub", "b.txt", "link_out_file", "link_out_dir", "link_in_file", "rel_out", "secret.txt", "..", ".", "outside", "work", "back_in", "missing", "work-evil", "WORK", "jump", "twin", "nest", "deep"];
    let mut reqs: Vec<String> = vec![String::new()];
    for a in vocab { reqs.push(a.to_string()); for b in vocab { reqs.push(format!("{a}/{b}")); for c in vocab { reqs.push(format!("{a}/{b}/{c}")); } } }
    let mut all: Vec<String> = Vec::new();
    for r in &reqs {
        all.push(r.clone());
        all.push(format!("{}/{}", work.display(), r));
        all.push(format!("{}/{}", outside.display(), r));
        all.push(format!("/{r}"));
        all.push(format!("./{r}/"));
        all.push(format!("{r}//"));
    }
    let work_real = fs::canonicalize(&work).unwrap();
    let (mut n, mut accepted) = (0u64, 0u64);
    let mut fail: Option<String> = None;
    for wd in [work.clone(), base.join("work/sub/.."), PathBuf::from(format!("{}/", work.display()))] {
        for r in &all {
            n += 1;
            if let Ok(p) = security::validate_path(r, Path::new(&wd)) {
                accepted += 1;
                let resolved = fs::canonicalize(&p);
                let ok = match &resolved { Ok(q) => q.starts_with(&work_real), Err(_) => false };
                if !ok && fail.is_none() {
                    fail = Some(format!("request={:?} workdir={:?} accepted_as={:?} which the file system resolves to {:?} (work directory resolves to {:?})", r, wd, p, resolved, work_real));
                }
            }
        }
    }
    // a request that was accepted once must be re-validated: replace an accepted regular file by a link leaving the work directory and ask again
    if fail.is_none() {
        for r in ["a.txt", "sub/b.txt", "./a.txt", "sub/../a.txt"] {
            fs::write(work.join("a.txt"), b"in").ok(); fs::write(work.join("sub").join("b.txt"), b"in").ok();
            let first = security::validate_path(r, Path::new(&work));
            n += 1;
            if first.is_err() { continue; }
            let target = if r.contains("b.txt") { work.join("sub").join("b.txt") } else { work.join("a.txt") };
            fs::remove_file(&target).unwrap();
            symlink(outside.join("secret.txt"), &target).unwrap();
            if let Ok(p) = security::validate_path(r, Path::new(&work)) {
                let resolved = fs::canonicalize(&p);
                if !matches!(&resolved, Ok(q) if q.starts_with(&work_real)) {
                    fail = Some(format!("sequence: request={:?} accepted while a regular file; the file was then replaced by a link to {:?}; the SAME request was accepted again as {:?}, which resolves to {:?}", r, outside.join("secret.txt"), p, resolved));
                }
            }
            fs::remove_file(&target).ok();
            if fail.is_some() { break; }
        }
    }
    let _ = fs::remove_dir_all(&base);
    match fail {
        Some(f) => { println!("WITNESS {f}"); std::process::exit(1) }
        None => println!("NO-WITNESS requests={n} accepted={accepted}"),
    }
}
