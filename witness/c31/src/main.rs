//! Bounded stand-in for C31 (DESIGN §2.5): runs the REAL `validate_path` (security.rs is included by path, it only needs std) on
//! a real directory tree with symlinks pointing inside and outside the work directory, for every request made of <= 3 components
//! of a fixed vocabulary, relative and absolute.  Oracle (the property): an accepted path, fully resolved by the file system,
//! lies inside the resolved work directory.  It DECIDES NOTHING unless it finds a failing input.
#[path = "@REPO@/crates/varpulis-cli/src/security.rs"]
#[allow(dead_code, unused_imports)]
mod security;

use std::fs;
use std::os::unix::fs::symlink;
use std::path::{Path, PathBuf};

fn main() {
    let base = std::env::args().nth(1).map(PathBuf::from).unwrap_or_else(std::env::temp_dir).join(format!("vpv-c31-{}", std::process::id()));
    let _ = fs::remove_dir_all(&base);
    let work = base.join("work");
    let outside = base.join("outside");
    fs::create_dir_all(work.join("sub")).unwrap();
    fs::create_dir_all(&outside).unwrap();
    fs::write(work.join("a.txt"), b"in").unwrap();
    fs::write(work.join("sub").join("b.txt"), b"in").unwrap();
    fs::write(outside.join("secret.txt"), b"out").unwrap();
    // a sibling whose NAME has the work directory's name as a textual prefix
    fs::create_dir_all(base.join("work-evil")).unwrap();
    fs::write(base.join("work-evil").join("secret.txt"), b"out").unwrap();
    symlink(outside.join("secret.txt"), work.join("link_out_file")).unwrap(); // file symlink leaving the work dir
    symlink(&outside, work.join("link_out_dir")).unwrap(); // directory symlink leaving the work dir
    symlink(work.join("a.txt"), work.join("link_in_file")).unwrap(); // symlink staying inside
    symlink("../../outside/secret.txt", work.join("sub").join("rel_out")).unwrap(); // relative symlink leaving
    symlink(work.join("sub"), outside.join("back_in")).unwrap(); // outside -> inside
    let vocab = ["a.txt", "sub", "b.txt", "link_out_file", "link_out_dir", "link_in_file", "rel_out", "secret.txt", "..", ".", "outside", "work", "back_in", "missing", "work-evil"];
    let mut reqs: Vec<String> = vec![String::new()];
    for a in vocab { reqs.push(a.to_string()); for b in vocab { reqs.push(format!("{a}/{b}")); for c in vocab { reqs.push(format!("{a}/{b}/{c}")); } } }
    let mut all: Vec<String> = Vec::new();
    for r in &reqs {
        all.push(r.clone());
        all.push(format!("{}/{}", work.display(), r));
        all.push(format!("{}/{}", outside.display(), r));
        all.push(format!("/{r}"));
        all.push(format!("./{r}/"));
        all.push(format!("{r}//"));
    }
    let work_real = fs::canonicalize(&work).unwrap();
    let (mut n, mut accepted) = (0u64, 0u64);
    let mut fail: Option<String> = None;
    for wd in [work.clone(), base.join("work/sub/.."), PathBuf::from(format!("{}/", work.display()))] {
        for r in &all {
            n += 1;
            if let Ok(p) = security::validate_path(r, Path::new(&wd)) {
                accepted += 1;
                let resolved = fs::canonicalize(&p);
                let ok = match &resolved { Ok(q) => q.starts_with(&work_real), Err(_) => false };
                if !ok && fail.is_none() {
                    fail = Some(format!("request={:?} workdir={:?} accepted_as={:?} which the file system resolves to {:?} (work directory resolves to {:?})", r, wd, p, resolved, work_real));
                }
            }
        }
    }
    let _ = fs::remove_dir_all(&base);
    match fail {
        Some(f) => { println!("WITNESS {f}"); std::process::exit(1) }
        None => println!("NO-WITNESS requests={n} accepted={accepted}"),
    }
}
