#!/bin/bash
# dev: verus run with per-function times
cd $(dirname $1) && verus $(basename $1) --triggers-mode silent --output-json --time ${@:2} 2>/var/tmp/vtest/err.txt | python3 -c "
import json,sys
d=json.load(sys.stdin)
print(d['verification-results'])
fb=[]
for m in d['times-ms']['smt']['smt-run-module-times']:
    fb+=m['function-breakdown']
for f in sorted(fb,key=lambda f:-f['time'])[:12]:
    print(f['time'],'ms', f['rlimit'], f['function'], f['success'])
print('total ms', d['times-ms']['total'])
"; grep -A8 "^error" /var/tmp/vtest/err.txt | grep -v "^ *|$" | head -${VT_LINES:-60}
