#!/usr/bin/env python3
"""Rewrite DESIGN.md §9 from seeded/*/meta.json."""
import subprocess, re
tbl = subprocess.check_output(["python3", "/verif/lib/mk_seeded_table.py"], text=True)
table, totals = tbl.split("\nTotals:")
intro = '''## 9. Seeded changes (independent sub-agents) and own mutants — which check catches what

Each seeded change was produced by a fresh sub-agent that saw **only the property text** and a scratch worktree
(nothing from /verif), and was confirmed by me with `lib/confirm_mutant.sh` in a scratch worktree: the existing tests
of the touched crate pass with it (timing-based tests that fail on the loaded machine are re-run alone), the
demonstration fails with it and passes without it. Kept under `seeded/<id>-m<k>/` (`patch.diff`, demonstration,
`notes.md`, `meta.json`). `lib/run_seeded.py` applies each patch to a scratch worktree of /repo's HEAD, points the
property's check at it (`VPV_REPO`) and records the outcome in `meta.json`; the table below is generated from those
files (`lib/mk_design_s9.py`). Patches whose context was changed by a later `fix:` commit were re-ported by hand
(the original is kept as `patch.orig.diff`); C09-m1 had to be re-ported twice because the first re-port edited the
helper that both evaluators share since 3d7a82b and therefore no longer violated C09.

'''
outro = '''
Reading the table. **caught** = exit 1 with a VIOLATION line naming the obligation shown; obligations whose name ends in
`(native enumeration …)` or `bounded-differential-search` are **bounded stand-ins**, the others are Verus obligations
or Kani cells. **missed** = exit 0: the change lies in code that no contract, cell or stand-in of this property
reaches — both are named as *not decided* in the level note of their check: C13-m2 (the *partitioned* count-sliding
window state in `engine/types.rs`: `pub(crate)`, hash map keyed by strings, reachable only through the async engine)
and C34-m3 (`inject_batch` in the async coordinator). Many of the **caught** rows were *missed* or *undecided* in the
first evaluation round; they are caught now because the check was extended afterwards (chrono model for the windows,
bounded stand-ins) — the extension was always a contract or a stand-in on the real function stated from the property,
never a test for the specific change.

*Second batches* (m4–m6, agents told which ideas were already used): **C06** — all three refuted at once by the Verus
obligation of the very function they touch (`product_with_optional`, `intersection_rec`, `intersection_refs`). **C07** —
first evaluation: one refuted by Verus (`get_or_create`, weakened zero-suppression), two *undecided* (a new persistent
cache field / a restructured `gc`: proof lost, stand-in silent); **C31** — first evaluation: three *undecided*, one of
them through a machinery error (the havoc fallback assumed a marker line the C31 template does not have — fixed). The
witness finders were then extended (extension order and canonicity after `product_with_optional`, terminal handles kept
alive across `gc`; a sibling directory differing only in letter case, two cooperating links with `..`, re-validation
after an accepted file was replaced by a link) and all six are reported with a concrete failing input. **C12** —
one refuted by Verus (`TumblingWindow::add_shared`), one caught by the windows stand-in, one first *undecided* (it
introduced `saturating_sub`, which the C12 template did not declare, and went through `flush_columnar`, which the
stand-in did not exercise): helper declared, stand-in extended, now refuted by the Verus obligation of
`CountWindow::add_shared` with the stand-in's failing input attached. **C40** — all three caught at once (two Kani cells,
one native map cell). **C20** — one caught at once, two first *missed* (a NaN with the sign bit set through my own serde
adapter; payload fields named like the serialised keys): the native cells' value and field-name pools were widened.
**C45** — two refuted at once by the `spec_step` cells, one first *missed* (an empty batch taken as the half-open probe
inside `ResilientSink::send_batch`, which was declared not covered): a native stand-in for `ResilientSink` was added. This is the
honest picture of the stand-ins: they catch what their enumeration happens to contain, and nothing else; only the
proofs generalise. No seeded change was reported on
the unchanged tree, and no check reports a violation on the unchanged tree.

**Behaviour-preserving changes** (`seeded/benign/c1…c8`, produced by an independent sub-agent told to refactor without
changing behaviour in the ZDD crate, `window.rs` and `validate_path`; evaluated by `lib/run_benign.py`, results in
`seeded/benign_results.json`): **no false alarm**. Seven of the eight leave every affected check at exit 0 (always-true
`debug_assert!`s, `get_or_insert`, swapped independent statements, split conditions with mirrored comparisons, renamed
locals, inverted guard, `if let … return` turned into a `match`). One ends as *undecided* (exit 2) for C06/C07:
extracting `sorted_unique` in `zdd.rs` (a new callee without contract: havoc, callers not provable, no failing input ⇒
"contract for the new function needed"). The `match` form of `UniqueTable::get_or_create` was *undecided* at first — the
ref-pattern rule R1 knew `if let Some(&x) = e {` only and mis-read the `=` of `=>`; R1 now also covers match arms. The renaming of locals in `validate_path` was *undecided* at first because
the C31 proof named two locals in a hint; the existential of the contract now finds its witness through the term the
`is_absolute` call leaves behind, and no local is named any more.

Own development mutants (scratch copy, not kept): union wrong child, intersection cache key `(a,a)`, `pwo` wrong lo,
zero-suppression weakened, count `lo+lo`, difference wrong recursion, `validate_path` × 4 (guard on un-canonicalised
workdir, `Ok(absolute)`, check on `absolute`, join instead of canonicalize), time-sliding eviction `>` for `>=`, slide
test `>` for `>=`, watermark emission time shifted — all refuted; `contains_sorted` `>` → `>=` is an equivalent mutant
and verifies.

Totals:''' + totals + '''
---------------------------------------------------------------------------------

'''
p = "/verif/DESIGN.md"
s = open(p).read()
i = s.index("## 9. Seeded changes")
j = s.index("## 10. Log:")
open(p, "w").write(s[:i] + intro + table + outro + s[j:])
print("§9 rewritten;", totals.strip())
