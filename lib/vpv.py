"""Common plumbing for /verif checks: obligations, known findings, evidence, exit codes.

Exit codes of every registered command (DESIGN §1):
  0  every ledger obligation generated and discharged (or listed as a known finding)
  1  an obligation is refuted by the verifier  -> "VIOLATION property=<id> replay=<path>"
  2  undecided: lost anchor / unsupported construct / timeout / tool crash.  Never an alarm.
"""
import json, os, sys, time, re, subprocess, shutil, hashlib

VERIF = os.path.dirname(os.path.dirname(os.path.abspath(__file__)))
REPO = os.environ.get("VPV_REPO", "/repo")
# development aid: with VPV_REPO pointing at a scratch copy (seeded-change experiments) evidence goes to a side directory, so that
# /verif/evidence only ever describes runs against /repo itself
EVID = os.path.join(VERIF, "evidence") if REPO == "/repo" else os.path.join("/var/tmp", "vpv-evidence-alt")
REPLAYS = os.path.join(VERIF, "replays")
KNOWN = os.path.join(VERIF, "known_findings.json")
SCRATCH_ROOT = os.environ.get("VPV_SCRATCH_ROOT", "/var/tmp")

DISCHARGED, REFUTED, UNDECIDED = "discharged", "refuted", "undecided"


class Undecided(Exception):
    """Machinery could not decide (exit 2): lost anchor, tool limit, timeout."""


class Obligation:
    def __init__(self, name, fn="", tool="", grade="", backend="", where=""):
        self.name = name          # ledger id, e.g. C08/eval_binary_op/Ge/Int-Float
        self.fn = fn              # function(s) of /repo under contract
        self.tool = tool          # verus | kani
        self.grade = grade        # verus-proof | K-complete | K-bounded(<bound>)
        self.backend = backend    # z3 via Verus | CBMC+cadical ...
        self.where = where        # file:line in /repo
        self.status = UNDECIDED
        self.solver_s = 0.0
        self.detail = ""          # verifier message for a refutation / reason for undecided
        self.finding_keys = []    # keys compared with known_findings.json (one per failed check)
        self.replay = None        # path of replay file

    def to_json(self):
        d = dict(name=self.name, fn=self.fn, tool=self.tool, grade=self.grade, backend=self.backend,
                 status=self.status, solver_s=round(self.solver_s, 3))
        if self.where: d["where"] = self.where
        if self.detail: d["detail"] = self.detail[:2000]
        if self.finding_keys: d["finding_keys"] = self.finding_keys
        if self.replay: d["replay"] = self.replay
        return d


def load_known():
    if not os.path.exists(KNOWN):
        return {"findings": [], "fixed": []}
    return json.load(open(KNOWN))


def known_keys(prop):
    return {f["obligation"]: f for f in load_known().get("findings", []) if f["property"] == prop}


def repo_head():
    try:
        return subprocess.check_output(["git", "-C", REPO, "rev-parse", "--short", "HEAD"], text=True).strip()
    except Exception:
        return "unknown"


def repo_dirty():
    try:
        return bool(subprocess.check_output(["git", "-C", REPO, "status", "--porcelain", "--untracked-files=no"], text=True).strip())
    except Exception:
        return False


def write_replay(prop, obligation, payload):
    os.makedirs(REPLAYS, exist_ok=True)
    slug = re.sub(r"[^A-Za-z0-9_.-]+", "_", obligation)[:100]
    path = os.path.join(REPLAYS, f"{prop}-{slug}.json")
    payload = dict(payload)
    payload.update(property=prop, obligation=obligation, repo_head=repo_head(), repo_dirty=repo_dirty(),
                   written=time.strftime("%Y-%m-%dT%H:%M:%S"))
    json.dump(payload, open(path, "w"), indent=1)
    return path


def finish(prop, tier, obligations, *, level, explanation, checker_cmd, trusted_base, assumptions,
           functions, wall_s, extra=None, undecided_reason=None, samples=None):
    """Write evidence, print KNOWN-FINDING / VIOLATION lines, return exit code."""
    known = known_keys(prop)
    n_viol = 0
    lines = []
    used_known = set()
    for o in obligations:
        if o.status != REFUTED:
            continue
        keys = o.finding_keys or [o.name]
        new = [k for k in keys if k not in known]
        for k in keys:
            if k in known:
                used_known.add(k)
        if new:
            n_viol += 1
            tail = "" if (o.replay_reproduced if hasattr(o, "replay_reproduced") else False) else ""
            suffix = getattr(o, "violation_suffix", "")
            lines.append(f"VIOLATION property={prop} replay={o.replay or 'none'} obligation={new[0]}{suffix}")
        else:
            o.status = "known-finding"
    for k in sorted(used_known):
        print(f"KNOWN-FINDING: property={prop} {k} — {known[k].get('what', '')}")
    # a known finding that no longer fails is reported (informational), never an alarm
    stale = [k for k in known if k not in used_known]
    n_obl = len(obligations)
    n_dis = sum(1 for o in obligations if o.status == DISCHARGED)
    n_known = sum(1 for o in obligations if o.status == "known-finding")
    n_und = sum(1 for o in obligations if o.status == UNDECIDED)
    # `obligations` = obligations this run REQUIRES to hold; obligations listed as known findings (genuine, recorded defects)
    # are counted separately and named in known_finding_obligations
    cov = dict(
        obligations=n_obl - n_known, discharged=n_dis, obligations_including_known_findings=n_obl, known_findings=n_known,
        known_finding_obligations=[o.name for o in obligations if o.status == "known-finding"],
        undecided=n_und, refuted_new=n_viol,
        checker_cmd=checker_cmd, trusted_base=trusted_base, explanation=explanation,
        functions_under_contract=functions,
        obligation_list=[o.to_json() for o in obligations],
        samples=samples or [o.name for o in obligations[:8]],
        solver_s_total=round(sum(o.solver_s for o in obligations), 2),
        repo_head=repo_head(), repo_dirty=repo_dirty(),
        stale_known_findings=stale,
    )
    if undecided_reason:
        cov["undecided_reason"] = undecided_reason
    if extra:
        cov.update(extra)
    # "proof" only if every obligation is discharged by an unbounded / full-domain method
    ev_level = level
    if level == "proof" and (n_dis != n_obl - n_known):
        ev_level = "other"
        cov["explanation"] = ("NOT all obligations discharged on this run (see obligation_list); " + explanation)
    elif n_known:
        cov["explanation"] = (f"{n_known} obligation(s) are recorded known findings (genuine defects pinned by the repository's own tests, see "
                              "known_findings.json and known_finding_obligations); every OTHER obligation was discharged. " + explanation)
    ev = dict(property_id=prop, tier=tier, seed=int(os.environ.get("VERIF_SEED", "0") or 0), level=ev_level,
              coverage=cov, assumptions=assumptions, wall_s=round(wall_s, 2), violations=n_viol)
    os.makedirs(EVID, exist_ok=True)
    json.dump(ev, open(os.path.join(EVID, f"{prop}.json"), "w"), indent=1)
    for l in lines:
        print(l)
    print(f"[{prop}] tier={tier} obligations={n_obl} discharged={n_dis} known-findings={n_known} "
          f"undecided={n_und} new-violations={n_viol} wall={wall_s:.1f}s")
    if n_viol:
        return 1
    if n_und or undecided_reason:
        print(f"[{prop}] UNDECIDED: {undecided_reason or 'see evidence'}", file=sys.stderr)
        return 2
    return 0


def sh(cmd, cwd=None, env=None, timeout=None):
    """Run in its own process group, return (rc, combined output). rc = -9 on timeout (group killed)."""
    import signal, tempfile
    e = dict(os.environ)
    e.update(env or {})
    e.setdefault("CARGO_NET_OFFLINE", "true")
    with tempfile.TemporaryFile(mode="w+", errors="replace") as f:
        p = subprocess.Popen(cmd, cwd=cwd, env=e, stdout=f, stderr=subprocess.STDOUT, start_new_session=True)
        try:
            rc = p.wait(timeout=timeout)
        except subprocess.TimeoutExpired:
            try:
                os.killpg(p.pid, signal.SIGKILL)
            except ProcessLookupError:
                pass
            p.wait()
            rc = -9
        f.seek(0)
        return rc, f.read()
