"""Verus units: expand a template against /repo (mechanical extraction), run `verus`, map results to
per-function obligations, run the vacuity canaries, and on a refutation try to attach a concrete witness."""
import os, re, json, time, shutil, subprocess
import vpv, extract
from vpv import VERIF, REPO, Undecided, Obligation, DISCHARGED, REFUTED, UNDECIDED

VERUS_TRUST = [
    "rustc 1.98.1 front end + Verus 0.2026.09.13 (VC generation) + z3 (SMT back end)",
    "the extractor's rewrite rules R0-R19 (lib/extract.py) — local, listed with hit counts in coverage.rewrite_rules_hit",
    "vstd specifications of Vec, slices, Option, Seq/Set/Map",
]

REFUTE = re.compile(r"postcondition not satisfied|assertion failed|precondition not satisfied|invariant not satisfied|"
                    r"could not prove termination|decreases not satisfied|arithmetic underflow/overflow|possible division by zero|"
                    r"possible arithmetic|index out of bounds|recommendation not met|unreachable|failed this")
LIMIT = re.compile(r"Resource limit|rlimit|timed out|timeout", re.I)


def fn_ranges(text):
    """[(name, start_line, end_line)] of every `fn` in the generated file (1-based, inclusive)."""
    bl = extract.blank(text)
    res = []
    impl_stack = []
    for m in re.finditer(r"\bfn\s+(\w+)\s*[<(]", bl):
        j, d = m.end() - 1, 0
        while j < len(bl):
            c = bl[j]
            if c in "([": d += 1
            elif c in ")]": d -= 1
            elif c == "{" and d == 0: break
            elif c == ";" and d == 0: j = -1; break
            j += 1
        if j < 0 or j >= len(bl):
            continue
        # spec-clause braces (ensures ({ .. })) could confuse this scan: the body `{` is the first `{` at depth 0
        # that follows a newline-or-space and is not inside parentheses; good enough for line attribution.
        try:
            end = extract.match_brace(bl, j)
        except Exception:
            continue
        res.append((m.group(1), text.count("\n", 0, m.start()) + 1, text.count("\n", 0, end) + 1))
    return res


def impl_of(text):
    """line -> enclosing impl type name"""
    bl = extract.blank(text)
    spans = []
    for m in re.finditer(r"(?m)^[ \t]*impl\b([^{;]*)\{", bl):
        o = m.end() - 1
        c = extract.match_brace(bl, o)
        head = m.group(1).split(" for ")[-1]
        ty = re.sub(r"<.*", "", head.strip()).strip()
        spans.append((text.count("\n", 0, o) + 1, text.count("\n", 0, c) + 1, ty))
    return spans


def run_verus(path, timeout=900, extra=None):
    cmd = ["verus", os.path.basename(path), "--triggers-mode", "silent", "--output-json", "--time", "--multiple-errors", "3"] + (extra or [])
    t0 = time.time()
    try:
        p = subprocess.run(cmd, cwd=os.path.dirname(path), stdout=subprocess.PIPE, stderr=subprocess.PIPE, text=True, timeout=timeout)
    except subprocess.TimeoutExpired:
        raise Undecided(f"verus exceeded {timeout} s")
    wall = time.time() - t0
    try:
        js = json.loads(p.stdout)
    except Exception:
        js = None
    return js, p.stderr, wall, " ".join(cmd)


def parse_errors(stderr):
    """[(msg, line)] for each `error...` block with a location in the generated file"""
    out = []
    blocks = re.split(r"\n(?=error)", "\n" + stderr)
    for b in blocks:
        m = re.match(r"error(?:\[\w+\])?: (.*)", b.strip())
        if not m:
            continue
        loc = re.search(r"--> [^:\n]+:(\d+):\d+", b)
        out.append((m.group(1).strip(), int(loc.group(1)) if loc else None, b.strip()[:1800]))
    return out


def scan_assumptions(text):
    res = []
    lines = text.split("\n")
    for i, ln in enumerate(lines):
        if re.search(r"external_body|assume_specification|\bassume\s*\(|\badmit\s*\(|#\[verifier::external\b|uninterp spec", ln) and not ln.strip().startswith("//"):
            # describe by the next fn/struct name
            name = ""
            for k in range(i, min(i + 6, len(lines))):
                mm = re.search(r"\b(fn|struct)\s+(\w+)", lines[k])
                if mm:
                    name = mm.group(2); break
            kind = re.search(r"external_body|assume_specification|assume|admit|external|uninterp", ln).group(0)
            res.append(f"{kind}: {name}")
    return sorted(set(res))


def generate(unit, scratch, canary=False):
    tmpl = open(os.path.join(VERIF, unit["template"])).read()
    extract.RULE_HITS.clear()
    try:
        text, metas = extract.expand_template(REPO, tmpl)
    except extract.LostAnchor as e:
        raise Undecided(f"lost anchor: {e}")
    if canary:
        # vacuity canary: `assert(false)` at the entry of every extracted fn that has a `requires`
        def add(m):
            return m.group(0) + "\n proof { assert(false); } // VPV-CANARY\n"
        text = re.sub(r"//VPV-BODY-START:(\w[\w:]*):req\n\{", add, text)
    path = os.path.join(scratch, unit["gen_name"] + ("_canary" if canary else "") + ".rs")
    open(path, "w").write(text)
    return path, text, metas, dict(extract.RULE_HITS)


def havoc_unknown_callees(unit, text, err):
    """Modular verification: a function under contract now calls something that has no contract in the generated file.
    If that callee exists in /repo (same source files as the unit), add it as an `external_body` stub with NO postcondition
    (its effect is unknown), so the caller's obligations are checked against 'anything may happen'.  -> (new text, [names])"""
    names = set(re.findall(r"no method named `(\w+)` found", err)) | set(re.findall(r"cannot find function `(\w+)` in this scope", err))
    if not names:
        return text, []
    files = sorted(set(re.findall(r"//@EXTRACT file=(\S+)", open(os.path.join(VERIF, unit["template"])).read())))
    stubs, done = [], []
    for nm in sorted(names):
        for rel in files:
            path = os.path.join(REPO, rel)
            if not os.path.exists(path):
                continue
            src = open(path).read()
            bl = extract.blank(src)
            found = None
            for (o, c, head) in [(m.end() - 1, None, m.group(1)) for m in re.finditer(r"(?m)^[ \t]*impl\b([^{;]*)\{", bl)]:
                c = extract.match_brace(bl, o)
                for (ls, bo, bc, depth) in extract.find_fn(src, bl, nm, o + 1, c):
                    if depth == 0:
                        ty = re.sub(r"<.*", "", head.split(" for ")[-1].strip()).strip()
                        found = (ty, src[ls:bo].strip())
            if not found:
                for (ls, bo, bc, depth) in extract.find_fn(src, bl, nm):
                    if depth == 0:
                        found = (None, src[ls:bo].strip())
            if found:
                ty, sig = found
                sig = extract.global_rules_sig(sig)
                stub = f"#[verifier::external_body] {sig} {{ unimplemented!() }}  // VPV-HAVOC: callee without contract"
                stubs.append(f"impl {ty} {{ {stub} }}" if ty else stub)
                done.append(nm)
                break
    if not stubs:
        return text, []
    if "} // verus!" not in text:
        return text, []
    idx = text.rindex("} // verus!")
    return text[:idx] + "\n// ---- havoc stubs for callees that have no contract in this unit ----\n" + "\n".join(stubs) + "\n" + text[idx:], done


def run(unit, tier="quick", dev=False, only=None):
    obls, kw = run_unit(unit, tier, dev, only)
    return vpv.finish(unit["prop"], tier, obls, **kw)


def bounded_standin(unit, scratch, reason, cmd, t0):
    """The proof is out of reach on this tree (the code left the verifier's subset).  The BOUNDED stand-in — the native differential
    search of the unit, labelled bounded, never counted as proved — still runs: a concrete failing input on the real code is a
    violation; no failing input leaves the property undecided (exit 2)."""
    wit = unit["witness"](scratch) if unit.get("witness") else None
    if not (wit and wit.get("found")):
        raise Undecided(reason + ("\n(bounded stand-in found no failing input: " + str(wit.get("note")) + ")" if wit else ""))
    prop = unit["prop"]
    o = Obligation(f"{prop}/bounded-differential-search", fn="(public API of the unit)", tool="native differential search", grade="bounded(universe of <= 3 variables)",
                   backend="native execution of the real crate", where="witness/")
    o.kind = "bounded"
    o.status = REFUTED
    o.detail = "Verus could not take the current code (" + reason[:600] + "); the bounded stand-in found a failing input: " + str(wit.get("input"))
    o.finding_keys = [f"{prop}/bounded-differential-search"]
    o.replay = vpv.write_replay(prop, o.finding_keys[0], dict(tool="native differential search (bounded stand-in)", witness=wit, verus_cmd=cmd,
                                                              why_no_proof=reason[:3000]))
    return [o], dict(level="other", explanation="PROOF LOST on this tree: " + reason[:400] + " — bounded stand-in (native differential search over <= 3 variables) found a failing input.",
                     checker_cmd=wit.get("cmd", ""), trusted_base=[], assumptions=["bounded stand-in only; nothing is proved on this run"],
                     functions=[], wall_s=time.time() - t0, extra=dict(bounded_standin=True))


def run_unit(unit, tier="quick", dev=False, only=None):
    """-> (obligations, kwargs for vpv.finish)"""
    t0 = time.time()
    prop = unit["prop"]
    scratch = os.path.join(vpv.SCRATCH_ROOT, "vpv.dev-verus" if dev else f"vpv.{os.getpid()}")
    os.makedirs(scratch, exist_ok=True)
    try:
        try:
            path, text, metas, hits = generate(unit, scratch)
        except Undecided as e:
            return bounded_standin(unit, scratch, str(e), "(extraction failed before Verus ran)", t0)
        js, err, wall, cmd = run_verus(path, extra=unit.get("verus_args"))
        havoced = []
        if "error[E0599]" in err or "error[E0425]" in err:
            text2, havoced = havoc_unknown_callees(unit, text, err)
            if havoced:
                text = text2
                open(path, "w").write(text)
                js, err, wall, cmd = run_verus(path, extra=unit.get("verus_args"))
        if js is None or js["verification-results"].get("encountered-vir-error") or ("error[E" in err) or re.search(r"^error: (?!.*(not satisfied|assertion failed|termination|rlimit|Resource limit))", err, re.M) and not js["times-ms"].get("smt"):
            first = "\n".join(err.splitlines()[:25])
            reason = "generated file is outside Verus' subset / no longer type-checks (lost anchor or unsupported construct):\n" + first
            return bounded_standin(unit, scratch, reason, cmd, t0)
        ranges = fn_ranges(text)
        impls = impl_of(text)
        def qual(name, line):
            for (a, b, ty) in impls:
                if a <= line <= b:
                    return f"{ty}::{name}"
            return name
        fb = {}
        for m in js["times-ms"]["smt"]["smt-run-module-times"]:
            for f in m["function-breakdown"]:
                fb[f["function"].split("::", 1)[1]] = f
        errs = parse_errors(err)
        by_fn = {}
        for msg, line, block in errs:
            if line is None:
                continue
            owner = None
            for (name, a, b) in ranges:
                if a <= line <= b and (owner is None or a >= owner[1]):
                    owner = (name, a, b)
            if owner:
                by_fn.setdefault(qual(owner[0], owner[1]), []).append((msg, block))
        extracted = {m.get("gen_name", m["item"]): m for m in metas}
        ledger = json.load(open(os.path.join(VERIF, unit["ledger"])))[prop]
        obls = []
        for ent in ledger:
            fn = ent["fn"]
            o = Obligation(f"{prop}/{fn}#{ent.get('what', 'contract')}", fn=fn, tool="verus", grade="verus-proof (unbounded)",
                           backend="z3 via Verus", where=(f"{extracted[fn]['file']}:{extracted[fn]['line']}" if fn in extracted else "contracts/verus (lemma over the contracts)"))
            o.kind = "extracted" if fn in extracted else "lemma"
            f = fb.get(fn)
            if f is None:
                o.status, o.detail = UNDECIDED, "function not found in Verus' report (renamed or no longer generated)"
            else:
                o.solver_s = f["time"] / 1000.0
                if f["success"]:
                    o.status = DISCHARGED
                else:
                    msgs = by_fn.get(fn, [])
                    if any(LIMIT.search(m) for m, _ in msgs) or not msgs:
                        o.status, o.detail = UNDECIDED, ("resource limit: " if msgs else "failed without a located message: ") + "; ".join(m for m, _ in msgs)[:500]
                    else:
                        o.status = REFUTED
                        o.detail = "\n".join(b for _, b in msgs)[:3000]
                        o.finding_keys = [f"{prop}/{fn}"]
            obls.append(o)
        # ---- vacuity canaries (every run)
        canary_info = {}
        if not only:
            cpath, ctext, _, _ = generate(unit, scratch, canary=True)
            cjs, cerr, cwall, _ = run_verus(cpath, extra=unit.get("verus_args"))
            n_can = ctext.count("VPV-CANARY")
            cfb = {}
            if cjs and cjs["times-ms"].get("smt"):
                for m in cjs["times-ms"]["smt"]["smt-run-module-times"]:
                    for f in m["function-breakdown"]:
                        cfb[f["function"].split("::", 1)[1]] = f
            vac = []
            for mm in re.finditer(r"//VPV-BODY-START:(\w[\w:]*):req", ctext):
                fn = mm.group(1)
                f = cfb.get(fn)
                if f is not None and f["success"]:
                    vac.append(fn)
            canary_info = dict(canaries=n_can, vacuous=vac, wall_s=round(cwall, 1))
            if vac:
                for o in obls:
                    if o.fn in vac and o.status == DISCHARGED:
                        o.status, o.detail = UNDECIDED, "vacuous: `assert(false)` at function entry verified, the precondition is contradictory"
        # ---- witness search for refutations
        known = vpv.known_keys(prop)
        new = [o for o in obls if o.status == REFUTED and any(k not in known for k in o.finding_keys)]
        if new:
            wit = None
            if unit.get("witness"):
                wit = unit["witness"](scratch)
            if havoced and not (wit and wit.get("found")):
                # restructured code: the proof failed only against an unknown (havoc'd) callee and no failing input exists
                # in the searched universe -> undecided, not an alarm
                for o in new:
                    o.status = UNDECIDED
                    o.detail = ("callee(s) without contract: " + ", ".join(havoced) + " (treated as havoc); caller obligation not provable, "
                                "native differential search found no failing input -> a contract for the new function is needed. " + o.detail)[:2500]
                new = []
            for o in new:
                payload = dict(tool="verus", function=o.fn, verifier_output=o.detail, verus_cmd=cmd, havoc_stubs=havoced,
                               note="Verus gives no counterexample; `witness` is the result of the native differential search (it decides nothing)",
                               witness=wit)
                if not (wit and wit.get("found")):
                    o.violation_suffix = " no-failing-input-found"
                o.replay = vpv.write_replay(prop, o.finding_keys[0], payload)
        # ---- thorough tier: the unit's native differential search also runs as a SUPPLEMENT next to the proofs (it covers glue that is not
        # under contract, e.g. iteration completeness, argument normalisation).  It is not an obligation and never counts as proved; a failing
        # input it finds is a violation like any other.
        supplement = None
        if tier == "thorough" and unit.get("witness") and not only:
            wit = unit["witness"](scratch)
            supplement = dict(ran=True, found=bool(wit.get("found")), detail=(wit.get("input") or wit.get("note") or "")[:600], cmd=wit.get("cmd", ""))
            if wit.get("found"):
                o = Obligation(f"{prop}/bounded-differential-search", fn="(public API of the unit)", tool="native differential search", grade="bounded(small universes, see witness/)",
                               backend="native execution of the real crate", where="witness/")
                o.kind = "bounded"
                o.status = REFUTED
                o.detail = "thorough-tier supplement found a failing input: " + str(wit.get("input"))
                o.finding_keys = [f"{prop}/bounded-differential-search"]
                if any(k not in known for k in o.finding_keys):
                    o.replay = vpv.write_replay(prop, o.finding_keys[0], dict(tool="native differential search (thorough-tier supplement)", witness=wit))
                obls.append(o)
        assumptions = scan_assumptions(text)
        verified = js["verification-results"]["verified"]
        return obls, dict(level=unit.get("level", "proof"), explanation=unit["explanation"],
                          checker_cmd=cmd + "   (file generated from " + unit["template"] + " + /repo on this run)",
                          trusted_base=VERUS_TRUST + unit.get("trusted_extra", []),
                          assumptions=[f"[scan of generated file] {a}" for a in assumptions] + unit.get("assumptions", []),
                          functions=[f"{m['file']}:{m['line']} {m['item']}" for m in metas if m.get("gen_name", m["item"]) in {e['fn'] for e in ledger}],
                          wall_s=time.time() - t0,
                          extra=dict(rewrite_rules_hit=hits, verus_verified_total=verified, verus_errors_total=js["verification-results"]["errors"],
                                     verus_wall_s=round(wall, 1), canary=canary_info,
                                     extracted_items_in_file=len(metas), generated_lines=text.count("\n"), havoc_stubs=havoced,
                                     thorough_supplement=supplement))
    finally:
        if not dev:
            shutil.rmtree(scratch, ignore_errors=True)
