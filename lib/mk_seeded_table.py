#!/usr/bin/env python3
"""Print the DESIGN §9 table from seeded/*/meta.json (one row per seeded change)."""
import json, glob, os, re
rows = []
for d in sorted(glob.glob("/verif/seeded/C*")):
    name = os.path.basename(d)
    m = json.load(open(os.path.join(d, "meta.json")))
    title = " ".join(l.strip("# ").strip() for l in m.get("breaks", [])[:1])
    title = re.sub(r"^C\d\d\s*[/—-]?\s*(mutant\s*)?m\d\s*[—:-]*\s*", "", title, flags=re.I)
    title = re.sub(r"^(mutant\s*)?m\d\s*[—:-]*\s*", "", title, flags=re.I).strip()
    co = m.get("check_outcome") or {}
    out = co.get("outcome", "not run")
    viol = co.get("violated_obligations") or []
    conf = m.get("confirmed_by_me", {})
    ok = all(conf.get(k) is True for k in ("existing_tests_pass_with_mutant", "demo_fails_with_mutant", "demo_passes_without"))
    if out == "detected":
        v = viol[0]
        v = re.sub(r"\s*\(native enumeration.*$", "", v)
        res = f"**caught** — `{v[:110]}`" + (f" (+{co.get('n_violations',1)-1} more)" if co.get("n_violations", 1) > 1 else "")
    elif out.startswith("undecided"):
        res = "**undecided (exit 2)** — " + (co.get("stderr_tail", "")[-120:].replace("\n", " ").replace("|", "/"))
    elif out == "missed":
        res = "**missed**"
    else:
        res = out
    rows.append(f"| {name}{'' if ok else ' (confirmation pending)'} | {title[:110]} | {m.get('needs_to_manifest','')[:120]} | {res} |")
print("| change | what was changed | what it needs to manifest | result of `bin/vcheck` |")
print("|---|---|---|---|")
print("\n".join(rows))
import collections
c = collections.Counter((json.load(open(os.path.join(d, "meta.json"))).get("check_outcome") or {}).get("outcome", "not run") for d in glob.glob("/verif/seeded/C*"))
print("\nTotals:", dict(c))
