#!/usr/bin/env python3
"""dev helper: expand a Verus template against /repo and print / write it"""
import sys, os
sys.path.insert(0, os.path.dirname(os.path.abspath(__file__)))
import extract
t = open(sys.argv[1]).read()
out, metas = extract.expand_template(os.environ.get("VPV_REPO", "/repo"), t)
open(sys.argv[2], "w").write(out)
print(len(metas), "items extracted;", extract.RULE_HITS)
