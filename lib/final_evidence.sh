#!/bin/bash
# final_evidence.sh [IDs...] — run the registered quick command of every claimed property against /repo (clean, non-dev) and validate the evidence files.
cd /verif
IDS="$@"
if [ -z "$IDS" ]; then IDS=$(python3 -c "import json; print(' '.join(c['property_id'] for c in json.load(open('MANIFEST.json'))['checks']))"); fi
st=$(git -C /repo status --porcelain --untracked-files=no); [ -n "$st" ] && { echo "refusing: /repo is dirty"; exit 2; }
for p in $IDS; do
  t0=$(date +%s)
  out=$(bin/vcheck $p --tier ${TIER:-quick} 2>&1); rc=$?
  echo "$p rc=$rc $(( $(date +%s) - t0 ))s :: $(echo "$out" | grep -E '^\[C' | tail -1)"
  echo "$out" | grep -E "^VIOLATION" | head -3
done
python3-vt - <<'PY'
import json, jsonschema, glob
sch=json.load(open('/root/.vp/EVIDENCE.schema.json'))
for f in sorted(glob.glob('/verif/evidence/*.json')):
    e=json.load(open(f))
    try: jsonschema.validate(e, sch); ok='valid'
    except Exception as x: ok='INVALID '+str(x)[:200]
    c=e['coverage']
    print(f.split('/')[-1], ok, 'level=',e['level'], 'obl=',c.get('obligations'), 'dis=',c.get('discharged'), 'dirty=',c.get('repo_dirty'), 'head=',c.get('repo_head'), 'viol=',e.get('violations'))
PY
