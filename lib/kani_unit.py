"""Kani units: scratch copy of /repo's crates, harness modules appended (nothing edited),
`cargo kani` run on the real crate, per-harness results parsed, counterexamples replayed natively.

A unit (dict):
  prop        property id
  crate       directory name under crates/ in which `cargo kani` is run
  appends     [(file relative to /repo, module name, contract file relative to /verif)]
  extra_appends  optional [(file, literal text)] — `#[cfg(kani)]` re-export shims
  grade       default grade for cells ("K-complete" | "K-bounded(...)"); per-cell override via CELL_GRADES
  kani_args   extra cargo-kani args (e.g. ["-Z","unstable-options"])
  timeout     seconds for the whole kani run
"""
import os, re, shutil, time, json, glob, signal
from vpv import *

# CBMC's own float-model checks are not Rust panics.  NOTE: "This is a placeholder message; Kani doesn't support message
# formatted at runtime" is how Kani reports a panic!() whose message is formatted at run time -- a REAL panic, never ignorable.
IGNORABLE = re.compile(r"NaN on |arithmetic overflow on floating-point")
# classes that mean "the bound/tool was insufficient", never a violation
UNDECIDABLE = re.compile(r"unwinding assertion|is not currently supported by Kani|unsupported|recursion unwinding|"
                         r"^dereference failure|^pointer |^assertion$")  # pointer-level checks in safe code = model artefact (e.g. TLS)

CELL_RE = re.compile(r'vpv_cell!\(\s*((?:#\[[^\]]*\]\s*)*)(\w+)\s*,\s*"([^"]+)"\s*,\s*\(([^)]*)\)', re.S)


NATIVE_RE = re.compile(r'vpv_native!\(\s*(\w+)\s*,\s*"([^"]+)"', re.S)


def parse_cells(contract_path):
    """-> [dict(mod, obl, args=[(name,type)], attrs)] in file order."""
    txt = open(contract_path).read()
    cells = []
    for m in CELL_RE.finditer(txt):
        args = []
        for a in [x.strip() for x in m.group(4).split(",") if x.strip()]:
            n, t = a.split(":", 1)
            args.append((n.strip(), t.strip()))
        cells.append(dict(mod=m.group(2), obl=m.group(3), args=args, attrs=m.group(1).strip(), native=False, pos=m.start()))
    for m in NATIVE_RE.finditer(txt):
        cells.append(dict(mod=m.group(1), obl=m.group(2), args=[], attrs="", native=True, pos=m.start()))
    cells.sort(key=lambda c: c["pos"])
    return cells


def cleanup_stale_scratch():
    for d in glob.glob(os.path.join(SCRATCH_ROOT, "vpv.*")):
        m = re.match(r".*/vpv\.(\d+)$", d)
        if m and not os.path.exists(f"/proc/{m.group(1)}"):
            shutil.rmtree(d, ignore_errors=True)


def make_scratch(dev=False, tag=""):
    cleanup_stale_scratch()
    s = os.path.join(SCRATCH_ROOT, f"vpv.dev-{tag}" if dev else f"vpv.{os.getpid()}")
    os.makedirs(s, exist_ok=True)
    for f in ("Cargo.toml", "Cargo.lock"):
        shutil.copy(os.path.join(REPO, f), os.path.join(s, f))
    rc, out = sh(["rsync", "-a", "--checksum", "--delete", "--exclude", "target", os.path.join(REPO, "crates"), s + "/"])
    if rc != 0:
        raise Undecided("rsync of /repo/crates failed: " + out[-500:])
    os.makedirs(os.path.join(s, ".cargo"), exist_ok=True)
    with open(os.path.join(s, ".cargo", "config.toml"), "w") as f:
        f.write("[net]\noffline = true\n")
    return s


def append_modules(scratch, unit):
    prelude = open(os.path.join(VERIF, "contracts/kani/prelude.rs")).read()
    appended = []
    for (rel, mod, contract) in unit["appends"]:
        target = os.path.join(scratch, rel)
        if not os.path.exists(target):
            raise Undecided(f"lost anchor: {rel} does not exist in /repo")
        body = open(os.path.join(VERIF, contract)).read()
        with open(target, "a") as f:
            f.write(f"\n#[cfg(any(kani, vpv_replay))]\n#[allow(warnings, clippy::all)]\npub mod {mod} {{\nuse super::*;\n{prelude}\n{body}\n}}\n")
        appended.append(f"{rel} += mod {mod} ({contract})")
    for (rel, text) in unit.get("extra_appends", []):
        target = os.path.join(scratch, rel)
        if not os.path.exists(target):
            raise Undecided(f"lost anchor: {rel} does not exist in /repo")
        with open(target, "a") as f:
            f.write("\n" + text + "\n")
        appended.append(f"{rel} += shim ({len(text.splitlines())} lines)")
    return appended


def parse_kani_output(out):
    """-> {harness: dict(status, failed=[(desc, loc)], time, cover_sat, cover_total)}"""
    res = {}
    cur = {}          # thread -> harness
    block_owner = None
    lines = out.splitlines()
    i = 0
    last_single = None
    while i < len(lines):
        ln = lines[i]
        m = re.match(r"(?:Thread (\d+): )?Checking harness (\S+?)\.\.\.", ln)
        if m:
            t = m.group(1) or "s"
            cur[t] = m.group(2)
            res.setdefault(m.group(2), dict(status=None, failed=[], time=0.0, cover_sat=0, cover_total=0))
            if m.group(1) is None:
                block_owner = "s"
            i += 1
            continue
        m = re.match(r"Thread (\d+): *$", ln)
        if m:
            block_owner = m.group(1)
            i += 1
            continue
        h = cur.get(block_owner) if block_owner is not None else None
        if h:
            r = res[h]
            m = re.match(r" \*\* (\d+) of (\d+) cover properties satisfied", ln)
            if m:
                r["cover_sat"], r["cover_total"] = int(m.group(1)), int(m.group(2))
            m = re.match(r"Failed Checks: (.*)$", ln)
            if m:
                loc = lines[i + 1].strip() if i + 1 < len(lines) and lines[i + 1].startswith(" File:") else ""
                r["failed"].append((m.group(1).strip(), loc))
            m = re.match(r"VERIFICATION:- (\w+)", ln)
            if m and r["status"] != "ERROR":
                r["status"] = m.group(1)
            m = re.match(r"Verification Time: ([0-9.]+)s", ln)
            if m:
                r["time"] = float(m.group(1))
            if "CBMC failed" in ln or "CBMC timed out" in ln or "out of memory" in ln.lower():
                r["status"] = "ERROR"
                r["error"] = (r.get("error", "") + " " + ln.strip()).strip()
        i += 1
    return res


def parse_playback(out):
    """-> {harness: [[byte,...],...]}  (values in the order the harness drew them).
    Kani prints one test per failed check and one per satisfied cover; the first non-cover one is used."""
    res = {}
    for m in re.finditer(r"Concrete playback unit test for `([^`]+)`:\n```\n(.*?)```", out, re.S):
        if re.search(r"Check for `cover`", m.group(2)) or m.group(1) in res:
            continue
        vals = []
        for v in re.finditer(r"vec!\[([0-9, ]*)\]", m.group(2)):
            inner = v.group(1).strip()
            vals.append([int(x) for x in inner.split(",") if x.strip()] if inner else [])
        res[m.group(1)] = vals
    return res


def decode_args(cell, vals):
    import struct
    outv = []
    for (n, t), b in zip(cell["args"], vals):
        bb = bytes(b)
        try:
            if t == "i64": v = struct.unpack("<q", bb.ljust(8, b"\0")[:8])[0]
            elif t == "u64" or t == "usize": v = struct.unpack("<Q", bb.ljust(8, b"\0")[:8])[0]
            elif t == "f64": v = repr(struct.unpack("<d", bb.ljust(8, b"\0")[:8])[0])
            elif t == "i32": v = struct.unpack("<i", bb.ljust(4, b"\0")[:4])[0]
            elif t == "u32": v = struct.unpack("<I", bb.ljust(4, b"\0")[:4])[0]
            elif t == "u16": v = struct.unpack("<H", bb.ljust(2, b"\0")[:2])[0]
            elif t == "u8": v = bb[0] if bb else 0
            elif t == "i8": v = struct.unpack("<b", bb[:1] or b"\0")[0]
            elif t == "bool": v = bool(bb[0] & 1) if bb else False
            else: v = list(bb)
        except Exception:
            v = list(bb)
        outv.append({"name": n, "type": t, "value": v, "bytes": bb.hex()})
    return outv


def native_replay(scratch, unit, modpath_file, mod, cell, vals, timeout=1500):
    """Run the same cell body natively (dev profile) on the scratch copy's real code."""
    spec = cell["mod"] + ":" + ",".join(bytes(b).hex() for b in vals)
    crate_dir = os.path.join(scratch, "crates", unit["crate"])
    env = {"RUSTFLAGS": "--cfg vpv_replay -Awarnings", "VPV_REPLAY": spec, "CARGO_TARGET_DIR": os.path.join(scratch, "target-replay")}
    cmd = ["cargo", "test", "--offline", "--lib", f"{mod}::vpv_replay", "--", "--nocapture", "--test-threads", "1"]
    rc, out = sh(cmd, cwd=crate_dir, env=env, timeout=timeout)
    m = re.search(r"REPLAY-RESULT (.*)", out)
    inputs = re.findall(r"^\s+input (.*)$", out, re.M)
    return dict(cmd="VPV_REPLAY=" + spec + " RUSTFLAGS='--cfg vpv_replay' " + " ".join(cmd), rc=rc,
                result=(m.group(1).strip() if m else "no REPLAY-RESULT line (build or harness error)"),
                inputs=inputs, tail=out[-1500:] if not m else "")


def run_unit(unit, tier="quick", dev=False, only=None):
    """-> (obligations, meta). Raises Undecided for machinery failures."""
    t0 = time.time()
    prop = unit["prop"]
    scratch = make_scratch(dev, prop)
    meta = dict(scratch=scratch, appended=[], kani_cmd="", build_s=0.0)
    try:
        meta["appended"] = append_modules(scratch, unit)
        # ledger = cells of all contract files (those suffixed __thorough only at thorough tier)
        cells = []
        for (rel, mod, contract) in unit["appends"]:
            for c in parse_cells(os.path.join(VERIF, contract)):
                c["file"], c["module"] = rel, mod
                if c["mod"].endswith("__thorough") and tier != "thorough":
                    continue
                if only and not re.search(only, c["mod"]):
                    continue
                cells.append(c)
        if not cells:
            raise Undecided("no cells in ledger (vacuous unit)")
        grades = unit.get("cell_grades", {})
        obls = {}
        for c in cells:
            g = unit["grade"]
            for pat, gg in grades.items():
                if re.search(pat, c["mod"]):
                    g = gg
            if c.get("native"):
                g = unit.get("native_grade", "bounded(native exhaustive enumeration)")
            o = Obligation(c["obl"], fn=unit.get("fn_of", lambda c: "")(c) or unit.get("functions_short", ""),
                           tool="native enumeration" if c.get("native") else "kani", grade=g,
                           backend="native execution of the real crate (cfg vpv_replay test build)" if c.get("native") else "CBMC 6.11 (cadical) via Kani 0.68", where=c["file"])
            o.cell = c
            obls[c["mod"]] = o
        crate_dir = os.path.join(scratch, "crates", unit["crate"])
        filters = []
        all_cells = sum([parse_cells(os.path.join(VERIF, a[2])) for a in unit["appends"]], [])
        kcells = [c for c in cells if not c.get("native")]
        if len(cells) != len(all_cells) or len(kcells) != len(cells):
            for c in kcells:
                filters += ["--harness", f"{c['module']}::{c['mod']}::h"]
        else:
            for (rel, mod, contract) in unit["appends"]:
                filters += ["--harness", f"{mod}::"]
        jobs = str(os.environ.get("VPV_JOBS") or unit.get("jobs", 16))
        ht = int(os.environ.get("VPV_HT") or unit.get("harness_timeout", 600))
        cmd = ["cargo", "kani", "-Z", "function-contracts", "-Z", "stubbing", "-Z", "unstable-options", "--harness-timeout", f"{ht}s"] + \
              unit.get("kani_args", []) + filters + ["-j", jobs, "--output-format", "terse"]
        meta["kani_cmd"] = "cd <scratch>/crates/%s && %s" % (unit["crate"], " ".join(cmd))
        tk = time.time()
        if kcells:
            rc, out = sh(cmd, cwd=crate_dir, timeout=unit.get("timeout", 1800))
        else:
            rc, out = 0, ""
        meta["kani_wall_s"] = round(time.time() - tk, 1)
        meta["kani_rc"] = rc
        if dev:
            open(os.path.join(scratch, f"kani-{prop}.log"), "w").write(out)
        if rc == -9:
            raise Undecided(f"cargo kani exceeded the {unit.get('timeout', 1800)} s resource guard")
        if "error: could not compile" in out or "error[E" in out or "Failed to execute cargo" in out:
            errs = "\n".join(l for l in out.splitlines() if l.startswith("error"))[:1500]
            raise Undecided("harness module no longer compiles against /repo (lost anchor / signature change):\n" + errs)
        if "Kani unexpectedly panicked" in out or "internal compiler error" in out:
            raise Undecided("kani-compiler internal error:\n" + out[-1500:])
        res = parse_kani_output(out)
        by_mod = {}
        for h, r in res.items():
            mm = re.search(r"::(\w+)::h$", h)
            if mm:
                by_mod[mm.group(1)] = (h, r)
        refuted = []
        for mod, o in obls.items():
            if o.cell.get("native"):
                continue
            if mod not in by_mod:
                o.status, o.detail = UNDECIDED, "harness was not run by Kani (filter/name mismatch)"
                continue
            h, r = by_mod[mod]
            o.harness = h
            o.solver_s = r["time"]
            hard = [(d, l) for d, l in r["failed"] if not IGNORABLE.search(d)]
            und = [(d, l) for d, l in hard if UNDECIDABLE.search(d)]
            real = [(d, l) for d, l in hard if not UNDECIDABLE.search(d)]
            if r["status"] == "FAILED" and not r["failed"]:
                o.status, o.detail = UNDECIDED, "Kani reported FAILED without a failed check (tool error / timeout): " + r.get("error", "")
            elif r["status"] == "SUCCESSFUL" or (r["status"] == "FAILED" and not hard):
                if r["cover_total"] and r["cover_sat"] < r["cover_total"] and r["status"] == "SUCCESSFUL":
                    o.status, o.detail = UNDECIDED, "vacuous: reachability cover unsatisfied"
                else:
                    o.status = DISCHARGED
                    if r["status"] == "FAILED":
                        o.detail = "only CBMC float-model checks (not Rust panics) failed: " + "; ".join(d for d, _ in r["failed"])[:300]
            elif r["status"] == "FAILED" and real:
                o.status = REFUTED
                o.finding_keys = sorted({o.name if d == o.name else f"{o.name}#{d}" for d, _ in real})
                o.detail = "; ".join(f"{d} @ {l}" for d, l in real)[:1500]
                refuted.append(o)
            else:
                o.status = UNDECIDED
                o.detail = r.get("error") or ("; ".join(d for d, _ in und) if und else f"kani status {r['status']}")
        # counterexamples + native replay for refutations that are not known findings
        known = known_keys(prop)
        new = [o for o in refuted if any(k not in known for k in o.finding_keys)]
        if new and not unit.get("no_playback"):
            pf = []
            for o in new[: int(os.environ.get("VPV_MAX_REPLAYS") or unit.get("max_replays", 8))]:
                pf += ["--harness", o.harness]
            cmd2 = ["cargo", "kani", "-Z", "function-contracts", "-Z", "stubbing", "-Z", "concrete-playback", "-Z", "unstable-options",
                    "--harness-timeout", f"{int(os.environ.get('VPV_HT') or unit.get('harness_timeout', 600))}s",
                    "--concrete-playback=print", "--exact"] + unit.get("kani_args", []) + pf + ["--output-format", "terse"]
            rc2, out2 = sh(cmd2, cwd=crate_dir, timeout=unit.get("timeout", 1800))
            if dev:
                open(os.path.join(scratch, f"kani-{prop}-playback.log"), "w").write(out2)
            pb = parse_playback(out2)
            for o in new:
                vals = pb.get(o.harness)
                payload = dict(tool="kani", harness=o.harness, cell=o.cell["mod"], failed_checks=o.detail,
                               kani_cmd=meta["kani_cmd"], appended=meta["appended"])
                if vals is not None:
                    payload["counterexample_bytes"] = [bytes(v).hex() for v in vals]
                    payload["counterexample"] = decode_args(o.cell, vals)
                    nr = native_replay(scratch, unit, o.cell["file"], o.cell["module"], o.cell, vals)
                    payload["native_replay"] = nr
                    o.replay_reproduced = nr["result"].startswith("violated")
                    if nr["result"].startswith("holds"):
                        # the verifier's counterexample does NOT fail on the real code: model artefact (nondeterministic libm model,
                        # TLS, ...) -> undecided, never an alarm
                        o.status = UNDECIDED
                        o.detail = "Kani counterexample did not reproduce on the real code (native replay: holds) -> undecided. " + o.detail
                    elif not o.replay_reproduced:
                        o.violation_suffix = " native-replay=unavailable"
                elif o in new[int(os.environ.get("VPV_MAX_REPLAYS") or unit.get("max_replays", 8)):]:
                    payload["counterexample"] = None
                    payload["note"] = "counterexample extraction was limited to the first %d refuted obligations of this run; re-run with --only to extract this one" % int(os.environ.get("VPV_MAX_REPLAYS") or unit.get("max_replays", 8))
                    o.violation_suffix = " counterexample-not-extracted(limit)"
                else:
                    payload["counterexample"] = None
                    payload["note"] = "verifier produced no concrete values for this harness"
                    o.violation_suffix = " no-failing-input-found"
                o.replay = write_replay(prop, o.finding_keys[0], payload)
        elif new:
            for o in new:
                o.violation_suffix = " no-failing-input-found"
                o.replay = write_replay(prop, o.finding_keys[0], dict(tool="kani", harness=o.harness, failed_checks=o.detail, kani_cmd=meta["kani_cmd"]))
        # native enumeration cells (bounded stand-ins): run the cell body natively on the scratch copy
        for mod, o in obls.items():
            if not o.cell.get("native"):
                continue
            tn = time.time()
            nr = native_replay(scratch, unit, o.cell["file"], o.cell["module"], o.cell, [])
            o.solver_s = round(time.time() - tn, 2)
            if nr["result"].startswith("holds"):
                o.status = DISCHARGED
            elif nr["result"].startswith("violated"):
                o.status = REFUTED
                o.finding_keys = [o.name]
                o.detail = (nr["result"] + " | first failing inputs: " + " || ".join(nr["inputs"][:3]))[:1500]
                o.replay_reproduced = True
                if any(k not in known for k in o.finding_keys):
                    o.replay = write_replay(prop, o.finding_keys[0], dict(tool="native enumeration (bounded stand-in)", cell=o.cell["mod"],
                                            failing_inputs=nr["inputs"][:20], native_replay=nr, appended=meta["appended"]))
            else:
                o.status, o.detail = UNDECIDED, "native enumeration did not run: " + nr["result"] + " " + nr.get("tail", "")[-600:]
        meta["wall_s"] = time.time() - t0
        return list(obls.values()), meta
    finally:
        if not dev:
            shutil.rmtree(scratch, ignore_errors=True)
