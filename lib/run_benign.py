#!/usr/bin/env python3
"""Apply each behaviour-preserving change under <dir>/c*/patch.diff to a scratch worktree of /repo's HEAD and run the checks whose
functions it touches.  Expected: exit 0 (or 2 = undecided); exit 1 would be a FALSE ALARM.  Not a registered command."""
import os, sys, glob, subprocess, re, json
src = sys.argv[1]
WT = "/var/tmp/vpv-benign-wt"
def git(*a): return subprocess.run(["git"] + list(a), capture_output=True, text=True)
git("-C", "/repo", "worktree", "remove", "--force", WT)
git("-C", "/repo", "worktree", "add", "--detach", WT, "HEAD")
out = []
try:
    for d in sorted(glob.glob(src + "/c*")):
        patch = os.path.join(d, "patch.diff")
        txt = open(patch).read()
        props = []
        if "varpulis-zdd" in txt: props += ["C06", "C07"]
        if "window.rs" in txt: props += ["C12", "C13"]
        if "security.rs" in txt: props += ["C31"]
        git("-C", WT, "checkout", "--", "."); git("-C", WT, "clean", "-fdq")
        r = git("-C", WT, "apply", patch)
        if r.returncode != 0:
            print(os.path.basename(d), "PATCH DOES NOT APPLY"); continue
        for p in props:
            pr = subprocess.run(["/verif/bin/vcheck", p], capture_output=True, text=True, cwd="/verif", env=dict(os.environ, VPV_REPO=WT))
            last = (pr.stdout.strip().splitlines() or [""])[-1][:160]
            verdict = {0: "ok (exit 0)", 2: "undecided (exit 2)", 1: "FALSE ALARM (exit 1)"}.get(pr.returncode, str(pr.returncode))
            note = (pr.stderr.strip().splitlines() or [""])[0][:200] if pr.returncode == 2 else ""
            out.append(dict(change=os.path.basename(d), prop=p, verdict=verdict, summary=last, note=note))
            print(os.path.basename(d), p, verdict, note, flush=True)
finally:
    git("-C", "/repo", "worktree", "remove", "--force", WT)
json.dump(out, open("/verif/seeded/benign_results.json", "w"), indent=1)
