#!/usr/bin/env python3
"""save_seeded.py <prop> <k> <mutant-dir> <crate> <needs> <detected-by|''> — copy a confirmed agent mutant into /verif/seeded/"""
import sys, os, shutil, json, glob
prop, k, md, crate, needs, det = sys.argv[1:7]
dst = f"/verif/seeded/{prop}-m{k}"
os.makedirs(dst, exist_ok=True)
for f in glob.glob(md + "/*"):
    if os.path.isfile(f): shutil.copy(f, dst)
demo = [os.path.basename(f) for f in glob.glob(md + "/*.rs")]
meta = dict(property=prop, breaks=open(md + "/notes.md").read().split("\n")[0:3], needs_to_manifest=needs,
            demonstration=demo, how_to_run_demo=f"copy {demo[0] if demo else '?'} to crates/{crate}/tests/ and run cargo test -p {crate} --offline --test {os.path.splitext(demo[0])[0] if demo else '?'}",
            confirmed_by_me=dict(cmd="lib/confirm_mutant.sh (scratch worktree): cargo test -p %s --offline with patch; demo with patch; demo without patch" % crate,
                                 existing_tests_pass_with_mutant=True, demo_fails_with_mutant=True, demo_passes_without=True,
                                 scope_note=f"existing tests run for crate {crate} only (the crate the patch touches)"),
            detected_by=det or None)
json.dump(meta, open(dst + "/meta.json", "w"), indent=1)
print(dst)
