#!/bin/bash
# confirm_mutant.sh <worktree> <mutant-dir> <crate> <demo-src> <demo-test-name>
# Confirms: (1) existing tests of <crate> pass with the patch, (2) demo fails with the patch, (3) demo passes without.
WT=$1; MD=$2; CR=$3; DEMO=$4; TN=$5
cd $WT || exit 9
git checkout -q -- crates; rm -f crates/$CR/tests/$TN.rs
git apply $MD/patch.diff || { echo "PATCH-FAILS"; exit 9; }
cargo test -p $CR --offline --no-fail-fast > /tmp/confirm.$$.log 2>&1; r1=$?
if [ $r1 -ne 0 ]; then
  # timing-based tests flake on a loaded machine: re-run each failed test on its own, up to 3 times
  r1=0
  for t in $(grep -E "^test .* \.\.\. FAILED" /tmp/confirm.$$.log | awk '{print $2}' | sort -u); do
    ok=1; for k in 1 2 3; do cargo test -p $CR --offline $t > /tmp/confirm.$$.retry.log 2>&1 && { ok=0; break; }; done
    echo "  retried $t -> $([ $ok -eq 0 ] && echo pass || echo FAIL)"; [ $ok -ne 0 ] && r1=101
  done
fi
cp $DEMO crates/$CR/tests/$TN.rs
cargo test -p $CR --offline --test $TN > /tmp/confirm.$$.demo1.log 2>&1; r2=$?
git checkout -q -- crates
cargo test -p $CR --offline --test $TN > /tmp/confirm.$$.demo2.log 2>&1; r3=$?
rm -f crates/$CR/tests/$TN.rs
echo "existing-tests-with-mutant: rc=$r1 ($(grep -c '^test result: ok' /tmp/confirm.$$.log) ok-suites, $(grep -c 'FAILED' /tmp/confirm.$$.log) FAILED lines)"
echo "demo-with-mutant: rc=$r2 (expected non-zero)"
echo "demo-without-mutant: rc=$r3 (expected 0)"
[ $r1 -eq 0 ] && [ $r2 -ne 0 ] && [ $r3 -eq 0 ] && echo CONFIRMED || echo NOT-CONFIRMED
rm -f /tmp/confirm.$$.*
