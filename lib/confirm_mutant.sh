#!/bin/bash
# confirm_mutant.sh <worktree> <mutant-dir> <crate> <demo-src> <demo-test-name>
# Confirms: (1) existing tests of <crate> pass with the patch, (2) demo fails with the patch, (3) demo passes without.
WT=$1; MD=$2; CR=$3; DEMO=$4; TN=$5
cd $WT || exit 9
git checkout -q -- crates; rm -f crates/$CR/tests/$TN.rs
git apply $MD/patch.diff || { echo "PATCH-FAILS"; exit 9; }
cargo test -p $CR --offline > /tmp/confirm.$$.log 2>&1; r1=$?
cp $DEMO crates/$CR/tests/$TN.rs
cargo test -p $CR --offline --test $TN > /tmp/confirm.$$.demo1.log 2>&1; r2=$?
git checkout -q -- crates
cargo test -p $CR --offline --test $TN > /tmp/confirm.$$.demo2.log 2>&1; r3=$?
rm -f crates/$CR/tests/$TN.rs
echo "existing-tests-with-mutant: rc=$r1 ($(grep -c '^test result: ok' /tmp/confirm.$$.log) ok-suites, $(grep -c 'FAILED' /tmp/confirm.$$.log) FAILED lines)"
echo "demo-with-mutant: rc=$r2 (expected non-zero)"
echo "demo-without-mutant: rc=$r3 (expected 0)"
[ $r1 -eq 0 ] && [ $r2 -ne 0 ] && [ $r3 -eq 0 ] && echo CONFIRMED || echo NOT-CONFIRMED
rm -f /tmp/confirm.$$.*
