#!/usr/bin/env python3
"""Regenerate /verif/MANIFEST.json from the unit registry (lib/units.py) and the not-applicable table below."""
import json, os, sys
sys.path.insert(0, os.path.dirname(os.path.abspath(__file__)))
import units

NA = {
 "C01": "Soundness of emitted matches is an invariant over the whole run history of SaseEngine (FxHashMap<String,Arc<Event>> captures, Instant, NFA built at run time); no per-function contract carries it and CBMC cannot carry hash-map lookups here (measured), so Kani on process() would be bounded symbolic testing of the engine, not a contract.",
 "C02": "Completeness/earliest-match against a reference semantics over all streams; same engine state as C01, outside both verifiers.",
 "C04": "Partition independence is an equivalence between two whole-engine executions (hash-partitioned state); not a per-call contract.",
 "C05": "handle_backpressure is a method of SaseEngine, whose 25 fields (NFA, event-type index, metrics Arc, hash maps) have to be assembled by hand inside a Kani harness and whose Run values carry FxHashMap / KleeneCapture drop glue. MEASURED on the cells written for it (contracts/kani/c05.rs.dropped, max_runs 1..=3): EvictOldest, EvictLeastProgress and Sample did not finish in 900 s at 6 GB each, the Error strategy reached 35 GB of CBMC memory after 165 s (62 GB machine, no swap) and was stopped; the partitioned variant additionally needs entry().or_default() on a hash map. Verus cannot take the closures / iterator chains (min_by_key, retain). No bounded native stand-in is offered either: the property is an invariant over whole matcher runs, not over this one function.",
 "C14": "Float reductions up to rounding; the path that runs on this hardware is AVX2 intrinsics behind is_x86_feature_detected! (unsupported by both verifiers); proving only scalar fallbacks would certify code that does not execute.",
 "C15": "Join correctness is a property of arrival histories over nested hash maps + a binary heap + chrono; outside both verifiers (hash maps measured out of reach).",
 "C16": "Equivalence of whole-engine executions across entry points (async Engine, channels, tokio).",
 "C17": "Exactly-once routing over whole-engine executions (async Engine, router hash maps).",
 "C18": "Real CLI binary with rayon workers; quantifies over schedules.",
 "C19": "Equivalence of whole-engine executions across a checkpoint cut (async Engine, serde).",
 "C21": "Crash points in file-system writes; no verifier here models a crash.",
 "C22": "Crash points in RocksDB/file-store writes and restart recovery; no verifier here models a crash.",
 "C23": "Hot reload: equivalence of whole-engine executions (async Engine, tokio).",
 "C24": "PerSourceWatermarkTracker mutates entries through `FxHashMap::get_mut` (&mut returned into the map) and folds over `values()`: Verus cannot take that code unmodified (no &mut-returning map access, no map iterators) and rewriting it would be proving a model; CBMC cannot carry the FxHashMap<String,_> (measured) nor chrono arithmetic on symbolic instants; the late-data gate itself is inside Engine::process_inner (async engine).",
 "C25": "Trend counts vs brute-force enumeration over all streams; Hamlet/GRETA graph state with f64/big counters and sharing decisions; no function-level contract expresses it.",
 "C26": "Thread schedules; Kani has no threads, Verus would need the code rewritten with its permission types.",
 "C27": "Barrier interleavings and crash points across threads; same reason as C26.",
 "C28": "Tenant isolation is a property of the warp route tree and async handlers (which filter guards which path); outside both verifiers.",
 "C29": "Authorisation is a property of the warp route tree (which role a route demands); Role::has_permission alone does not decide it.",
 "C32": "Interleavings of plan/execute/commit phases under RwLock with HTTP calls in between; schedules.",
 "C35": "Feature-gated openraft storage/replication, async traits, serde snapshots; the conformance suite is a test harness, not a contract.",
 "C36": "Crash points in persistent Raft storage writes.",
 "C37": "Message loss/partitions/crashes over a 3-node cluster; schedules and fault sequences.",
 "C38": "Histories of API operations and health-loop ticks on an in-process Raft cluster; async, schedules.",
 "C39": "The oracle is the pest-generated VPL parser; string-level reasoning about a generated parser is outside both tools.",
 "C41": "Termination and error positions of a pest-generated parser; only the fold-pass panics are reachable by this family and they are decided under C10.",
 "C42": "The oracle is the pest-generated parser on expanded text; string-level equivalence of two parses is outside both tools.",
 "C44": "json_from_value goes through serde_json::json!/Value; measured: scalar round-trip harnesses do not finish in 20 min of CBMC each; the HTTP half is warp.",
 "C46": "Both readers are line grammars over strings with a hand-written + serde parser; string-level equivalence of two parsers is outside both tools' string reasoning.",
}

LEVEL_TEXT = {}


def main():
    checks = []
    for prop in sorted(set(units.KANI_UNITS) | set(units.VERUS_UNITS)):
        u = units.KANI_UNITS.get(prop) or units.VERUS_UNITS.get(prop)
        if prop in units.NOT_READY:
            continue
        verus = prop in units.VERUS_UNITS
        level = u.get("level", "proof")
        tech = u.get("technique") or ("contract-based deductive verification: Verus (requires/ensures/invariants/decreases) on functions extracted mechanically from /repo"
                if verus else "contract-based verification: Kani/CBMC harnesses over full-domain symbolic inputs on the real crate (appended contract modules), native replay of counterexamples")
        c = dict(property_id=prop,
                 quick_cmd=f"bin/vcheck {prop} --tier quick",
                 thorough_cmd=f"bin/vcheck {prop} --tier thorough",
                 evidence_file=f"evidence/{prop}.json",
                 replay_cmd_template=f"bin/vcheck {prop} --replay {{path}}",
                 engine="verus" if verus else "kani",
                 level_claimed=dict(category=level, text=u.get("level_text") or u["explanation"], design_ref=u.get("design_ref", "DESIGN.md §4 " + prop)),
                 level_note=u.get("level_note") or ("Trusted/assumed: " + "; ".join(u.get("assumptions", []))),
                 technique=tech)
        checks.append(c)
    claimed = {c["property_id"] for c in checks}
    na = [dict(property_id=k, reason=v) for k, v in sorted(NA.items()) if k not in claimed]
    allp = [json.loads(l)["id"] for l in open(os.path.join(units.VERIF, "properties.jsonl"))]
    for p in allp:
        if p not in claimed and p not in NA:
            na.append(dict(property_id=p, reason="claimed in DESIGN.md but its unit is not built yet in this tree (work in progress) — no check is registered for it"))
    na.sort(key=lambda x: x["property_id"])
    m = dict(version=1,
             setup_cmd="bin/vsetup",
             hooks=dict(guard="kani", enable="none needed: contracts and harness modules live in /verif and are attached to a scratch copy of /repo at run time (cfg(kani) / cfg(vpv_replay) only ever set on that copy)",
                        baseline_off_cmd="cd /repo && cargo test --workspace --no-fail-fast --offline",
                        source_commits=[], add_only=True),
             engines=[dict(name="verus", path="lib/verus_unit.py", serves_properties=sorted(units.VERUS_UNITS), kind_free_text="deductive verifier (Verus 0.2026.09.13 + z3) on mechanically extracted functions"),
                      dict(name="kani", path="lib/kani_unit.py", serves_properties=sorted(units.KANI_UNITS), kind_free_text="Kani 0.68 / CBMC 6.11 function-level harnesses on the real crates")],
             checks=checks, not_applicable=na,
             notes="Exit codes: 0 held / known findings only; 1 VIOLATION; 2 undecided (lost anchor, tool limit) — never an alarm. Fix commits in /repo: see known_findings.json 'fixed'.")
    json.dump(m, open(os.path.join(units.VERIF, "MANIFEST.json"), "w"), indent=1)
    print(f"{len(checks)} checks, {len(na)} not applicable")


if __name__ == "__main__":
    main()
