"""Registry of verification units, one per claimed property, and the generic drivers."""
import os, sys, time, json, re
import vpv
from vpv import VERIF, Undecided

KANI_TRUST = [
    "rustc + kani-compiler 0.68 (MIR -> goto translation of the real crates)",
    "CBMC 6.11 + SAT back end (bit-precise; IEEE-754 floats as implemented by CBMC)",
    "harness modules are appended to a scratch copy of the real source file; nothing is edited or removed",
    "usize = 64 bit; Kani does not prove termination",
]

EVAL_STUBS = [
    "kani::stub eval_filter_expr -> None (thread_local!+Drop crashes kani-compiler; arm not reached by literal-operand trees)",
    "kani::stub collect_emitted_event -> () (same reason; only Stmt::Emit reaches it)",
    "kani::stub call_user_function -> None (same reason; harness expressions contain no user function)",
]

KANI_UNITS = {}
# units whose cells have not yet been validated end-to-end on the unchanged tree are kept out of MANIFEST.json
NOT_READY = set()

C09_SHIM = '''
// ---- vpv: re-export shim (verification builds only) ----
#[cfg(any(kani, vpv_replay))]
pub fn __vpv_compare_values(left: &Value, right: &Value, op: CompareOp) -> bool { compare_values(left, right, op) }
'''

KANI_UNITS["C08"] = dict(
    prop="C08", crate="varpulis-runtime",
    appends=[("crates/varpulis-runtime/src/engine/evaluator.rs", "__vpv_c08", "contracts/kani/c08.rs")],
    extra_appends=[("crates/varpulis-runtime/src/sase.rs", C09_SHIM)],
    grade="K-complete", level="proof", timeout=2400, harness_timeout=600,
    functions=["varpulis-runtime/src/engine/evaluator.rs: eval_binary_op (all of Lt/Le/Gt/Ge arms)",
               "varpulis-runtime/src/engine/evaluator.rs: eval_expr_with_functions (Expr::Binary arm, ops Lt/Le/Gt/Ge; literal arms)",
               "varpulis-runtime/src/engine/evaluator.rs: eval_pattern_expr (Expr::Binary arm + literal arms)",
               "varpulis-runtime/src/sase.rs: compare_values, values_compare (pattern-step filter kernel; through a cfg(kani) re-export shim)"],
    explanation=("64 cells = {eval_binary_op, eval_expr_with_functions, eval_pattern_expr, sase::compare_values} x {Lt,Le,Gt,Ge} x {Int,Float}^2, each a loop-free "
                 "Kani harness over the FULL i64/f64 domain (incl. NaN, +-0, +-inf, subnormals, |int|>2^53): result == Some(Bool(op(exact "
                 "mathematical order))) and Some(Bool(false)) with a NaN; plus 4 derived cells `a>=b <=> a>b or numerically equal`. "
                 "Loop-free full-domain harnesses are complete proofs of the cell contract. Field lookup (operands coming from an event) is "
                 "NOT covered: hash-map lookup is outside CBMC's reach here, operands are literals."),
    assumptions=EVAL_STUBS + ["spec_cmp (exact int/float order, 15 lines in contracts/kani/c08.rs) is trusted as the mathematical order",
                              "operands reach the comparison as Value::Int / Value::Float (event-field lookup not modelled)"],
)

KANI_UNITS["C11"] = dict(
    prop="C11", crate="varpulis-runtime",
    appends=[("crates/varpulis-runtime/src/engine/evaluator.rs", "__vpv_c11", "contracts/kani/c11.rs")],
    grade="K-complete", level="other", timeout=4800, harness_timeout=600,
    cell_grades={"c11_bin_add_ss": "K-bounded(2-byte string literals)"},
    native_grade="bounded(native exhaustive enumeration: 49 built-ins x argument tuples of length <= 3 over a pool of 16 values; Index / Slice / If over arrays and strings of length 0..=3 with 11 bounds)",
    functions=["varpulis-runtime/src/engine/evaluator.rs: eval_expr_with_functions (Binary arm: all 24 BinOp variants; Unary arm: all 3; literal arms)",
               "varpulis-runtime/src/engine/evaluator.rs: eval_builtin_function (abs sqrt floor ceil round pow log log10 exp sin cos min max is_null is_int type_of)"],
    explanation=("One cell per (operator, operand kinds) / built-in: the REAL evaluator is run on an expression whose operands are Int/Float/Bool literals "
                 "with full-domain i64/f64 payloads (incl. i64::MIN/MAX, -1, 0, NaN, +-inf) — built-ins additionally take a symbolic kind; the obligation is that "
                 "none of Kani's panic checks (arithmetic overflow, division/remainder by zero or overflow, index/slice bounds, unwrap on None, explicit panic) "
                 "is reachable. Loop-free cells are complete. Index / Slice / If and the string and collection built-ins (Kani cells dropped: Vec<Value> / String clone and drop glue, CBMC did not finish "
                 "in 25 min each) are covered by BOUNDED STAND-INS run natively: every built-in except range on every argument tuple of length <= 3 over 16 boundary values, and "
                 "Index / Slice on arrays and (non-ASCII) strings of length 0..=3 with every bound in {none, i64::MIN, -2..=5, i64::MAX}, return without panicking. NOT covered: operands "
                 "read from event fields, user function statements, `tan` under Kani (foreign call), range materialisation (excluded by the property)."),
    assumptions=EVAL_STUBS + ["CBMC's own float-model checks (NaN on ..., float overflow) are not Rust panics and are ignored by class"],
)

C10_SHIM = '''
// ---- vpv: re-export shim (verification builds only); the three functions below are the crate's own private functions ----
#[cfg(any(kani, vpv_replay))]
pub fn __vpv_fold_binary(op: BinOp, left: Expr, right: Expr) -> Expr { fold_binary(op, left, right) }
#[cfg(any(kani, vpv_replay))]
pub fn __vpv_fold_unary(op: UnaryOp, inner: Expr) -> Expr { fold_unary(op, inner) }
#[cfg(any(kani, vpv_replay))]
pub fn __vpv_fold_expr(e: Expr) -> Expr { fold_expr(e) }
'''

KANI_UNITS["C10"] = dict(
    prop="C10", crate="varpulis-runtime",
    appends=[("crates/varpulis-runtime/src/engine/evaluator.rs", "__vpv_c10", "contracts/kani/c10.rs")],
    extra_appends=[("crates/varpulis-parser/src/optimize.rs", C10_SHIM)],
    grade="K-complete", level="other", timeout=5400, harness_timeout=600,
    cell_grades={"_str$": "K-bounded(2-byte string literal)",
                 "c10_lit_(div|mod)_int_int$": "K-bounded(divisor in {0, 1, -1, 2, 3, -7, 10, i64::MAX, i64::MIN}; dividend full-domain)",
                 "c10_lit_div_float_float$": "K-bounded(divisor in {0.0, -0.0, 1.0, -1.0, 2.0, 0.5, inf, NaN}; dividend full-domain)"},
    native_grade="bounded(native exhaustive enumeration: every expression tree of depth <= 3 (one operand a leaf at the top level) over 10 operators x 19 leaves incl. float / int / string / missing fields: about 1.4 million trees)",
    functions=["varpulis-parser/src/optimize.rs: fold_expr on whole trees (native enumeration)", "varpulis-parser/src/optimize.rs: fold_binary (every arm: 10 literal arms, 8 identity arms, reconstruct), fold_unary",
               "varpulis-runtime/src/engine/evaluator.rs: eval_expr_with_functions (as the semantics both sides are compared under)"],
    explanation=("One cell per rewrite arm of the REAL fold_binary/fold_unary: for literal x literal arms the operands are full-domain i64/f64; for the identity "
                 "arms (x*0, 0*x, x*1, 1*x, x+0, 0+x, x-0, x/1) the wildcard operand ranges over literal leaves of every other kind (Float full-domain, Str, Bool, "
                 "Null). Contract: the REAL evaluator gives the same Option<Value> (Value::eq) "
                 "for the folded and the unfolded expression and neither side panics. Loop-free full-domain cells are complete proofs of their arm. Field references "
                 "are represented by literal leaves of each value type (event-field lookup is a hash-map lookup, outside CBMC's reach). NOT covered (measured: CBMC unrolls the "
                 "recursive evaluator once per tree level and does not finish trees deeper than root+leaves in 25 min): fold_expr's recursive shell over nested expressions, "
                 "operands that evaluate to no value, and any NEW rewrite arm that matches nested shapes such as (x+a)+b or x+a<b (seeded C10-m1/m2 are missed). The Pow/Int-Int arm "
                 "is compared through CBMC's nondeterministic model of powi and is therefore not decided (cell removed, listed). Rewrites that depend on the SHAPE of nested operands or on the run-time type of a field are covered by a BOUNDED STAND-IN run natively: every tree of depth <= 3 over 10 operators and 19 leaves (literals and the fields x, big (floats), i, top (ints), s (string), m (missing)) is folded by the real fold_expr and both versions are evaluated by the real evaluator on an event carrying those fields; trees containing an identity pattern with a non-integer-literal operand are skipped there (they are the known findings of the identity cells)."),
    assumptions=EVAL_STUBS + ["cfg(kani) re-export shim appended to optimize.rs (3 one-line wrappers)", "Value::eq is the notion of 'same value' (NaN == NaN, -0.0 == 0.0)"],
)



KANI_UNITS["C09"] = dict(
    prop="C09", crate="varpulis-runtime",
    appends=[("crates/varpulis-runtime/src/engine/evaluator.rs", "__vpv_c09", "contracts/kani/c09.rs")],
    extra_appends=[("crates/varpulis-runtime/src/sase.rs", C09_SHIM)],
    grade="K-complete", level="other", timeout=3000, harness_timeout=300,
    cell_grades={"_str": "K-bounded(1-character ASCII strings)", "c09_pred_": "K-bounded(1-character field name)"},
    native_grade="bounded(native exhaustive enumeration: 36 filters (6 operators x 5 literals + 6 not/and/or forms) x 10 field values, through the real parser, compiler and engine)",
    functions=["varpulis-runtime/src/sase.rs: compare_values, values_equal, values_compare (pattern-step filter kernel)",
               "varpulis-runtime/src/engine/evaluator.rs: eval_expr_with_functions (Binary comparison arms) as used by .where: eval(..).and_then(as_bool).unwrap_or(false)",
               "varpulis-runtime/src/engine/compiler.rs: expr_to_sase_predicate (operator table and operand order for `field <op> literal`), expr_to_value",
               "engine level (native enumeration): parse + Engine::load + Engine::process for `.where(F)` vs `-> E where F`"],
    explanation=("PARTIAL (comparison kernel only). 60 cells over 6 comparison operators and the operand kinds {Int, Float (full-domain), Bool, Str (1 ASCII char), Null}: per operator "
                 "six same-kind / numeric-mixed pairs, one merged cell for the 12 mismatched kind pairs and one for Null-Null: the pattern-step kernel compare_values(l, r, op) must "
                 "give the same truth value as the `.where` truth function on Binary{op, lit(l), lit(r)} evaluated by the REAL evaluator; plus 6 cells showing that "
                 "expr_to_sase_predicate maps `f <op> literal` to Compare{f, the same operator, the same value} and 6 cells that a literal-on-the-left comparison is NOT turned into a "
                 "Compare with an un-mirrored operator. "
                 "Filters over event FIELDS that are missing or of another type than the literal go through IndexMap/FxHashMap lookups which CBMC cannot carry; they are covered by a "
                 "BOUNDED STAND-IN run natively on the public engine: the same filter text in `E.where(F)` and in the sequence step `-> E where F` accepts the same event, for 6 operators "
                 "x 5 literals and six not/and/or forms over 10 field values (missing, ints, floats, NaN, strings, bool, null). NOT decided: CompareRef against captured aliases, "
                 "filters beyond the enumerated forms."),
    assumptions=EVAL_STUBS + ["cfg(kani) re-export shim appended to sase.rs (1 one-line wrapper)"],
)

KANI_UNITS["C40"] = dict(
    prop="C40", crate="varpulis-core",
    appends=[("crates/varpulis-core/src/value.rs", "__vpv_c40", "contracts/kani/c40.rs")],
    grade="K-complete", level="other", timeout=2400, harness_timeout=600,
    cell_grades={"c40_array_": "K-bounded(arrays of <= 2 elements, depth 1)", "_str": "K-bounded(1-character ASCII strings)"},
    native_grade="bounded(native exhaustive enumeration: maps of <= 3 entries over 3 keys x 6 values in every insertion order, plain and nested; 64 maps with different key sets, all pairs and triples)",
    functions=["varpulis-core/src/value.rs: impl PartialEq for Value (eq), float_eq, impl Hash for Value (hash) — scalar and array arms (Kani), Map arm (native enumeration)"],
    explanation=("PARTIAL (scalars complete, arrays bounded, MAPS NOT DECIDED). Per scalar variant, three symbolic values with full-domain payloads: == is reflexive, symmetric, "
                 "transitive, and a == b implies that Hash::hash feeds the SAME BYTE STREAM to a recording hasher (hence equal hashes for every hasher). A cross-kind cell "
                 "shows values of different variants are never equal, which reduces mixed transitivity to the same-kind cells. The float cell pins NaN == NaN and -0.0 == 0.0 "
                 "together with their hash normalisation. Arrays: <= 2 scalar elements, depth 1 (bounded). The Map arm (building two IndexMaps inside CBMC does not finish) is covered by a BOUNDED STAND-IN run natively: every map of <= 3 "
                 "entries over 3 keys and 6 values (ints, NaN, -0.0, 0.0, a string, a nested map), in every insertion order, alone and nested in an array / another map: == is reflexive and "
                 "symmetric and equal values have equal hashes (std DefaultHasher); and over 64 maps with different key sets (each of 3 keys absent / 1 / null / NaN) == is symmetric and "
                 "transitive and agrees with the hash."),
    assumptions=["the recording Hasher (48-byte log) observes exactly the bytes Hash::hash writes; streams longer than 48 bytes are treated as a failed obligation, never as equal"],
)

KANI_UNITS["C45"] = dict(
    prop="C45", crate="varpulis-runtime",
    appends=[("crates/varpulis-runtime/src/circuit_breaker.rs", "__vpv_c45", "contracts/kani/c45.rs")],
    grade="K-complete", level="other", timeout=2400, harness_timeout=600,
    cell_grades={"c45_opens_after": "K-bounded(thresholds 1..=4, 4 failures)"},
    native_grade="bounded(native exhaustive enumeration: DLQ — 6 sink names x 7 error texts x single write and batches of 0..=3 events; ResilientSink — scripts of <= 5 calls over 5 call kinds x 2 thresholds x 2 reset timeouts)",
    functions=["varpulis-runtime/src/circuit_breaker.rs: CircuitBreaker::new, allow_request, record_success, record_failure, state (Kani)",
               "varpulis-runtime/src/dead_letter.rs: DeadLetterQueue::open, write, write_batch, count (native enumeration)",
               "varpulis-runtime/src/sink.rs: ResilientSink::send, send_batch (native enumeration)"],
    explanation=("PARTIAL (breaker only; 'never loses an event' NOT decided). The contract is the 20-line step function spec_step (contracts/kani/c45.rs). Loop-free cells over ALL "
                 "inner states (state x consecutive_failures x last_failure present/absent), all thresholds >= 1, all reset timeouts and all elapsed times prove that each real "
                 "method implements spec_step exactly: Closed admits; record_failure in Closed opens iff failures+1 >= threshold (hence after exactly `threshold` consecutive "
                 "failures, by induction on the counter); Open rejects while now - last_failure < reset_timeout, then moves to HalfOpen and admits that one request; HalfOpen admits "
                 "nothing until record_success (closes, zeroes the counter) or record_failure (reopens). All state is behind one Mutex and each method is one critical section, so "
                 "any interleaving of concurrent senders is a sequence of these steps. The dead-letter queue (file I/O + serde) is covered by a BOUNDED STAND-IN run natively: "
                 "written singly or in batches, every event yields exactly one line that is a JSON object naming the sink and the error text exactly (texts with quotes, backslashes, "
                 "newlines, non-ASCII) and carrying the event; the counter agrees. ResilientSink::send / send_batch (async trait object) likewise by a native stand-in: a scripted "
                 "downstream behind the real sink, breaker and queue, every script of <= 5 calls over 5 call kinds, thresholds 1 and 2, reset timeout 0 and 1 h: every event handed "
                 "over is delivered or queued exactly once, the breaker is never left half-open between calls, a success at timeout 0 closes it. NOT decided: concurrent senders "
                 "through the sink (the breaker's own steps are atomic, see above), other Sink implementations."),
    assumptions=["kani::stub std::time::Instant::elapsed -> Duration from a harness-controlled value (virtual clock)",
                 "kani::stub std::time::Instant::now -> fixed Instant built by transmuting (i64 secs, u32 nanos) (layout assumption: size_of::<Instant>() == 16)",
                 "std::sync::Mutex is a mutex (concurrency argument); consecutive_failures < u32::MAX (2^32 consecutive failures would overflow the counter)"],
)

KANI_UNITS["C20"] = dict(
    prop="C20", crate="varpulis-runtime",
    appends=[("crates/varpulis-runtime/src/persistence.rs", "__vpv_c20", "contracts/kani/c20.rs")],
    grade="K-complete", level="other", timeout=2400, harness_timeout=600,
    cell_grades={"c20_array": "K-bounded(arrays of <= 2 elements, depth 1)", "c20_str": "K-bounded(2-byte strings)"},
    native_grade="bounded(native exhaustive enumeration: 2 event types x 5 (3) time stamps x <= 2 fields over 11 (3) values; 4 kleene_events shapes)",
    functions=["varpulis-runtime/src/persistence.rs: value_to_serializable, serializable_to_value (scalar, Str and Array arms) (Kani)",
               "varpulis-runtime/src/persistence.rs: From<&Event> for SerializableEvent, From<SerializableEvent> for Event, RunCheckpoint; codec.rs: serialize(Json), deserialize, is_json (native enumeration)"],
    explanation=("PARTIAL. (1) Kani, value conversion layer: for every scalar variant with full-domain payload (floats bit-for-bit, incl. NaN payloads, +-inf, -0.0) "
                 "serializable_to_value(value_to_serializable(&v)) returns v and the intermediate SerializableValue has the matching variant and payload; 2-byte strings and arrays of "
                 "<= 2 elements (depth 1) are bounded. (2) Event conversion, the JSON codec with format auto-detection and run checkpoints go through serde, HashMap/IndexMap insertion and "
                 "chrono (outside CBMC's reach, measured) and are covered by BOUNDED STAND-INS run natively: an event (unicode type and field names, whole-millisecond time stamps before "
                 "and after the epoch, up to two fields over ints, floats, -0.0, bools, null, unicode strings, timestamps, durations, nested arrays and maps) restored from its "
                 "SerializableEvent / from its JSON bytes equals the original; separate cells for NaN / infinite values and for sub-millisecond time stamps (see known findings); a "
                 "RunCheckpoint with kleene_events None / Some([]) / Some([..]) is read back as written. NOT decided: whole engine checkpoints from engine states, MessagePack, "
                 "anything beyond the enumerated events."),
    assumptions=["Vec / Box<str> / String from std behave as specified (CBMC models them through their real implementation)",
                 "event / codec / run-checkpoint cells: bounded native enumeration only — nothing is proved for them"],
)

KANI_UNITS["C30"] = dict(
    prop="C30", crate="varpulis-cluster",
    appends=[("crates/varpulis-cluster/src/rate_limit.rs", "__vpv_c30", "contracts/kani/c30.rs")],
    grade="K-complete", level="other", timeout=3600, harness_timeout=900,
    cell_grades={"c30_reset_after_rate1$|c30_reset_after_rate50$": "K-bounded(concrete rate)"},
    native_grade="bounded(native exhaustive enumeration: refill — rates 1, 3, 50 x elapsed 0..=2.5 s in 100 ms steps x 4 token levels, two refills in a row; check — <= 3 clients, table capacity >= clients, burst 0..=2, rate 0, every request sequence of length <= 7)",
    functions=["varpulis-cluster/src/rate_limit.rs: TokenBucket::new, remaining, reset_after, RateLimitConfig::new (Kani)",
               "varpulis-cluster/src/rate_limit.rs: TokenBucket::refill, RateLimiter::check (native enumeration)"],
    explanation=("PARTIAL. (1) Kani — finite retry-after / no panic: loop-free cells over all u32 configurations (rate 0 and burst 0 included) and all f64 token levels with 0 <= tokens <= "
                 "max_tokens: TokenBucket::new establishes the invariant; remaining never panics; reset_after returns without panicking a finite Duration (zero when a token is "
                 "available, <= 1 s when rate >= 1). (2) The admission bound 'admitted <= burst + rate*T' rests on refill / try_consume; Kani cells for them (concrete rates, symbolic "
                 "state and elapsed seconds) did not finish in 900 s of CBMC in three formulations and Verus has no floats, so they are covered by BOUNDED STAND-INS run natively: two "
                 "refills in a row credit an interval exactly once — elapsed*rate <= credit <= (time actually passed)*rate — for rates 1, 3, 50 and elapsed times 0..=2.5 s; and "
                 "RateLimiter::check (async tokio RwLock, per-IP HashMap, eviction) at rate 0 with the table never over capacity admits every client exactly min(burst, requests) times, "
                 "i.e. a tracked client never gets a fresh bucket. NOT decided: the bound for arbitrary rates and request-time sequences; eviction order when new clients arrive at capacity."),
    assumptions=["kani::stub std::time::Instant::now -> fixed Instant (transmute of (i64,u32); layout assumption)",
                 "bucket states in the Kani cells are restricted to the representation invariant 0 <= tokens <= max_tokens (established by new; its preservation by refill is only checked natively)",
                 "refill, RateLimiter::check: bounded native enumeration only — nothing is proved for them"],
)

KANI_UNITS["C33"] = dict(
    prop="C33", crate="varpulis-cluster",
    appends=[("crates/varpulis-cluster/src/lib.rs", "__vpv_c33", "contracts/kani/c33.rs")],
    grade="K-complete", level="other", timeout=3600, harness_timeout=900,
    cell_grades={"c33_rr_|c33_ll_": "K-bounded(<= 2 candidate workers)"},
    native_grade="bounded(native exhaustive enumeration: 3 workers x 4 statuses x 5 affinities; 4 statuses x 5 (interval, timeout) settings x 6 heartbeat ages)",
    functions=["varpulis-cluster/src/worker.rs: WorkerNode::is_available (Kani)", "varpulis-cluster/src/lib.rs: RoundRobinPlacement::place, LeastLoadedPlacement::place (Kani)",
               "varpulis-cluster/src/coordinator.rs: Coordinator::plan_deploy_group, heartbeat, health_sweep; health.rs: health_sweep (native enumeration)"],
    explanation=("PARTIAL. (1) Kani: is_available is proved (all statuses x all usize capacities) to be true exactly for Ready workers with spare capacity — never for Unhealthy, Draining "
                 "or Registering. place(): None iff the candidate slice is empty, otherwise the id of ONE OF THE CANDIDATES (round-robin: candidate[counter mod n] for every counter value "
                 "incl. wrap-around, counter advanced by one; least-loaded: membership, and the smaller load when core counts are equal) — bounded to <= 2 candidates. (2) The "
                 "coordinator's own code iterates a HashMap<WorkerId, WorkerNode>, reads the wall clock and logs through tracing (out of Kani's reach), so it is covered by BOUNDED "
                 "STAND-INS run natively: plan_deploy_group never places on a non-Ready worker, sends a pinned pipeline to its pinned worker iff that worker is available and fails iff "
                 "no worker is available (every combination of 4 statuses over 3 workers x 5 affinities); health_sweep marks a Ready worker Unhealthy iff its last heartbeat is older than "
                 "the configured timeout (ages one second either side of the timeout and of three intervals, five settings) and touches no other status; heartbeat revives an Unhealthy "
                 "worker and changes no other status. NOT decided: migrate / failover call sites, deregistration races, capacity-full workers in the coordinator, more than 3 workers."),
    assumptions=["kani::stub-free: Instant built by transmute of (i64,u32) for WorkerNode::last_heartbeat (layout assumption)",
                 "coordinator functions: bounded native enumeration only — nothing is proved for them; wall-clock ages are one whole second away from every threshold"],
)

KANI_UNITS["C34"] = dict(
    prop="C34", crate="varpulis-cluster",
    appends=[("crates/varpulis-cluster/src/routing.rs", "__vpv_c34", "contracts/kani/c34.rs")],
    grade="K-bounded(ASCII strings of length <= 2 (quick) / <= 3 (thorough); <= 2 routes x <= 2 patterns)", level="other", timeout=3600, harness_timeout=1200,
    native_grade="bounded(native exhaustive enumeration: 1..=6 replicas; round-robin: 2104 counter starts x every run of <= 40 injections; hash-key: 64 key values x 3 interleaved rounds)",
    functions=["varpulis-cluster/src/routing.rs: event_type_matches, find_target_pipeline (Kani)", "varpulis-cluster/src/pipeline_group.rs: ReplicaGroup::select_replica (native enumeration)"],
    explanation=("PARTIAL, BOUNDED. (1) Kani: event_type_matches agrees with a byte-level specification ('*' matches all, 'p*' is a prefix test, otherwise equality) for all ASCII "
                 "strings up to the stated length; find_target_pipeline returns the target of the FIRST matching route in declaration order (patterns of a route in order), else the "
                 "group's first pipeline, else None. (2) ReplicaGroup::select_replica contains a tracing::warn!, and every function reaching tracing's thread-local dispatcher crashes "
                 "kani-compiler 0.68, so it is covered by a BOUNDED STAND-IN run natively against the real function: round-robin — over every run of up to 40 consecutive injections, "
                 "for 1..=6 replicas and 2104 start values of the counter, replica loads differ by at most one; hash-key — equal key values always select the same existing replica and a "
                 "missing key one fixed replica. NOT decided: that single and batch injection build the same key (async coordinator code: inject_event / inject_batch), counters "
                 "beyond the enumerated starts (the counter wraps at 2^64)."),
    assumptions=["group assembled with empty HashMaps (no insertion); Instant by transmute (layout assumption)",
                 "select_replica: bounded native enumeration only — nothing is proved for it"],
)

KANI_UNITS["C43"] = dict(
    prop="C43", crate="varpulis-lsp",
    appends=[("crates/varpulis-lsp/src/diagnostics.rs", "__vpv_c43a", "contracts/kani/c43_diag.rs"),
             ("crates/varpulis-lsp/src/navigation.rs", "__vpv_c43b", "contracts/kani/c43_nav.rs"),
             ("crates/varpulis-lsp/src/hover.rs", "__vpv_c43c", "contracts/kani/c43_hover.rs"),
             ("crates/varpulis-lsp/src/completion.rs", "__vpv_c43d", "contracts/kani/c43_completion.rs")],
    grade="K-bounded(ALL valid UTF-8 documents of <= 3 bytes; every usize offset)", level="other", timeout=3600, harness_timeout=1200, jobs=4,
    native_grade="bounded(native exhaustive enumeration: 7382 documents of <= 4 characters over {a _ space newline é 1 . ( 世} x lines 0..=5 x character columns 0..=6)",
    functions=["varpulis-lsp/src/diagnostics.rs: position_to_line_col (Kani), get_error_end_column (native enumeration)",
               "varpulis-lsp/src/navigation.rs: byte_offset_to_position (Kani), word_at_position, span_to_location (native enumeration)",
               "varpulis-lsp/src/hover.rs: get_word_at_position (native enumeration)", "varpulis-lsp/src/completion.rs: get_completion_context (native enumeration)"],
    explanation=("PARTIAL, BOUNDED (position helpers only). (1) Kani, 2 cells: for every valid UTF-8 document of at most 3 bytes and every usize offset, position_to_line_col and "
                 "byte_offset_to_position return without panicking with line <= number of newlines and column <= document length. (2) The four helpers that go through "
                 "str::lines / char::is_alphanumeric (unicode tables: out of CBMC's reach, measured 670 s / 9.8 GB then failure for ONE of them on 3 ASCII bytes) are covered by a "
                 "BOUNDED STAND-IN: native exhaustive enumeration of 7382 documents (<= 4 characters, with 1-, 2- and 3-byte characters, LF and CR) x 6 lines x 7 columns against "
                 "the real functions: no panic; returned words are non-empty identifier text of the document; an error range ends after its start; the range span_to_location reports for any span on character boundaries lies within the document. NOT covered: the request "
                 "handlers themselves (tower-lsp, parser), semantic tokens, documents beyond the bound."),
    assumptions=["documents of <= 3 bytes (Kani) / <= 4 characters over a 9-character alphabet (native enumeration) — bounded stand-ins for 'all documents'; nothing is proved for longer documents"],
)


KANI_UNITS["C03"] = dict(
    prop="C03", crate="varpulis-runtime",
    appends=[("crates/varpulis-runtime/src/sase.rs", "__vpv_c03", "contracts/kani/c03.rs")],
    grade="K-bounded(predicate trees of depth <= 3; alias names fixed to \"b\" / \"other\")", level="other", timeout=3000, harness_timeout=600, jobs=8,
    native_grade="bounded(native exhaustive enumeration: classify_predicate — 120 000 predicate trees of depth <= 3; enumerate_with_filter — n <= 5 Kleene events with attribute in 0..=2, 6 comparison operators + no filter, every cap 1..=2^n)",
    functions=["varpulis-runtime/src/sase.rs: classify_predicate (Compare, CompareRef, And, Or, Not arms) (native enumeration)",
               "varpulis-runtime/src/sase.rs: enumerate_with_filter, evaluate_deferred_predicate (native enumeration)"],
    explanation=("BOUNDED STAND-INS run natively (no Kani cell is left in this part: with concrete alias names CBMC added nothing over running the function and needed > 480 s / 3.5 GB per "
                 "cell). classify_predicate decides WHICH Kleene filters are enumerated over subsets: for every predicate tree of depth <= 2 (depth 3 with one small operand) over the leaf "
                 "kinds constant comparison / comparison with the Kleene alias itself / comparison with another alias under Not / And / Or it answers Inconsistent exactly when the tree "
                 "contains a self-reference (and Consistent when there is no Kleene alias). Predicate::Expr leaves (expr_references_alias) are not covered. enumerate_with_filter / evaluate_deferred_predicate go through FxHashMap captures and the ZDD iterator "
                 "(outside both verifiers) and are covered by a BOUNDED STAND-IN run natively: for n <= 5 accumulated events, every self-referencing comparison filter and every cap, the "
                 "number of matches is min(cap, number of non-empty ordered subsets whose consecutive members satisfy the filter); without a filter min(cap, 2^n - 1)."),
    assumptions=["bounded predicate shapes; Predicate::Expr leaves not covered", "enumerate_with_filter: bounded native enumeration only; which subset a match stands for is not observable — counts only"],
)


def write_undecided(prop, tier, reason, wall):
    u = KANI_UNITS.get(prop) or VERUS_UNITS.get(prop) or {}
    ev = dict(property_id=prop, tier=tier, seed=int(os.environ.get("VERIF_SEED", "0") or 0), level="other",
              coverage=dict(explanation="UNDECIDED on this run (exit 2, never an alarm): " + reason, obligations=0, discharged=0,
                            checker_cmd="bin/vcheck " + prop, trusted_base=[]),
              assumptions=[], wall_s=round(wall, 2), violations=0)
    os.makedirs(vpv.EVID, exist_ok=True)
    json.dump(ev, open(os.path.join(vpv.EVID, f"{prop}.json"), "w"), indent=1)


VERUS_UNITS = {}

ZDD_ASSUME = [
    "R2: rustc_hash FxHashMap/FxHashSet behave as mathematical maps/sets keyed by structural equality (derived Hash/Eq of ZddRef, ZddNode, tuples)",
    "R3: derived Ord on ZddRef is an arbitrary deterministic total function (proofs hold for either answer)",
    "A1: node ids never wrap: the table holds fewer than 2^32-2 nodes (machine arithmetic treated as mathematical at `len as u32`)",
    "derived Clone of UniqueTable yields an equal table (assumed clone contract) — used by the standalone Zdd operations only",
    "R10/R11/R12: std iterator desugarings (slice::Iter, Map, collect, Rev visit every element once in (reverse) order)",
    "R13: slice::sort_unstable / Vec::dedup / slice::to_vec (at u32) have their documented contracts (assumed)",
    "termination of ArenaIterator::next and ZddIterator::next is NOT proved; iteration completeness ('each member exactly once') is NOT proved; "
    "count returns card(r), the structural count; lemma_card_is_cardinality proves card(r) == |{s : mem(r, s)}| (finite set of member sets)",
    "Not under any verifier: SharedArena lock wrappers, Zdd::to_sets / the Iterator trait impls (only the inherent `next` bodies), debug.rs",
]

def zdd_witness(scratch, cls="all"):
    """native differential search over <= 3 variables on the real varpulis-zdd API; attaches inputs, decides nothing"""
    import shutil
    wdir = os.path.join(scratch, "witness-zdd")
    shutil.rmtree(wdir, ignore_errors=True)
    shutil.copytree(os.path.join(VERIF, "witness/zdd"), wdir)
    ct = open(os.path.join(wdir, "Cargo.toml")).read().replace("/repo/", vpv.REPO.rstrip("/") + "/")
    open(os.path.join(wdir, "Cargo.toml"), "w").write(ct)
    tgt = os.path.join(scratch, "wit-target")
    rc, out = vpv.sh(["cargo", "build", "--offline", "--release"], cwd=wdir, env={"CARGO_TARGET_DIR": tgt}, timeout=900)
    if rc != 0:
        return dict(found=False, note="witness finder did not build: " + out[-400:])
    rc, out = vpv.sh([os.path.join(tgt, "release/vpv-zdd-witness"), "3", cls], timeout=600)
    m = re.search(r"^WITNESS (.*)$", out, re.M)
    if m:
        return dict(found=True, input=m.group(1), cmd="cd /verif/witness/zdd && cargo run --release -- 3 " + cls)
    if rc != 0 and "NO-WITNESS" not in out:
        return dict(found=True, input="real code panicked: " + out[-600:], cmd="cd /verif/witness/zdd && cargo run --release -- 3 " + cls)
    return dict(found=False, note=out.strip()[-300:])


def _zdd_unit(prop, explanation, level="proof"):
    return dict(witness=(lambda scratch, _p=prop: zdd_witness(scratch, _p)), verus_args=["--rlimit", "40"], prop=prop, template="contracts/verus/zdd.rs.tmpl", gen_name="zdd", ledger="obligations/zdd.json",
                explanation=explanation, level=level, assumptions=ZDD_ASSUME)

VERUS_UNITS["C06"] = _zdd_unit("C06",
    "Each listed function of crates/varpulis-zdd is extracted mechanically from /repo on this run and verified by Verus against a contract "
    "stated over the WHOLE denoted family: mem(nodes, result, s) <=> (set-algebra of mem of the operands) for every set s, for every table, "
    "every cache state and every recursion depth (unbounded, with termination). One obligation = one function's verification condition "
    "(requires/ensures/invariants/decreases).")


def run(prop, tier, dev=False, only=None):
    t0 = time.time()
    if prop in KANI_UNITS and prop in VERUS_UNITS:
        # composite unit: Verus obligations + Kani cells decide the property together
        import kani_unit, verus_unit
        vo, vkw = verus_unit.run_unit(VERUS_UNITS[prop], tier, dev=dev, only=only)
        u = KANI_UNITS[prop]
        ko, meta = kani_unit.run_unit(u, tier=tier, dev=dev, only=only)
        vkw["checker_cmd"] = vkw["checker_cmd"] + "   AND   " + meta["kani_cmd"]
        vkw["trusted_base"] = vkw["trusted_base"] + KANI_TRUST
        vkw["assumptions"] = vkw["assumptions"] + u["assumptions"]
        vkw["functions"] = vkw["functions"] + u["functions"]
        vkw["explanation"] = vkw["explanation"] + "  ||  KANI PART: " + u["explanation"]
        vkw["extra"].update(appended_modules=meta["appended"], kani_wall_s=meta.get("kani_wall_s"),
                            bounded_obligations=[o.name for o in ko if not o.grade.startswith("K-complete")])
        vkw["wall_s"] = time.time() - t0
        if vkw["level"] == "proof" and any(not o.grade.startswith("K-complete") for o in ko):
            vkw["level"] = "other"
        return vpv.finish(prop, tier, vo + ko, **vkw)
    if prop in KANI_UNITS:
        import kani_unit
        u = KANI_UNITS[prop]
        obls, meta = kani_unit.run_unit(u, tier=tier, dev=dev, only=only)
        bounded = [o for o in obls if not o.grade.startswith("K-complete")]
        level = u.get("level", "proof")
        if bounded and level == "proof":
            level = "other"
        return vpv.finish(prop, tier, obls, level=level, explanation=u["explanation"],
                          checker_cmd=meta["kani_cmd"], trusted_base=KANI_TRUST + u.get("trusted_extra", []),
                          assumptions=u["assumptions"] + ["machine f64 arithmetic = IEEE-754 as modelled by CBMC"],
                          functions=u["functions"], wall_s=time.time() - t0,
                          extra=dict(appended_modules=meta["appended"], kani_wall_s=meta.get("kani_wall_s"),
                                     grades=sorted({o.grade for o in obls}),
                                     bounded_obligations=[o.name for o in bounded]))
    if prop in VERUS_UNITS:
        import verus_unit
        return verus_unit.run(VERUS_UNITS[prop], tier, dev=dev, only=only)
    print(f"unknown or not-applicable property {prop}", file=sys.stderr)
    return 2


def replay(prop, path):
    """Re-run the native replay recorded in a replay file against /repo's current tree."""
    import kani_unit
    r = json.load(open(path))
    if r.get("tool") != "kani" or not r.get("counterexample_bytes"):
        print(json.dumps(r, indent=1)[:4000])
        print("(no concrete input recorded for this obligation — verifier output shown above)")
        return 0
    u = KANI_UNITS[prop]
    scratch = kani_unit.make_scratch(False)
    try:
        kani_unit.append_modules(scratch, u)
        cell = None
        for (rel, mod, contract) in u["appends"]:
            for c in kani_unit.parse_cells(os.path.join(VERIF, contract)):
                if c["mod"] == r["cell"]:
                    cell, cmod, crel = c, mod, rel
        if not cell:
            print("cell not found:", r["cell"]); return 2
        vals = [list(bytes.fromhex(h)) for h in r["counterexample_bytes"]]
        nr = kani_unit.native_replay(scratch, u, crel, cmod, cell, vals)
        print(json.dumps(nr, indent=1))
        return 1 if nr["result"].startswith("violated") else 0
    finally:
        import shutil
        shutil.rmtree(scratch, ignore_errors=True)


VERUS_UNITS["C07"] = _zdd_unit("C07",
    "(A) every table-mutating function of varpulis-zdd (arena and standalone) is verified to preserve the table invariant wf: every stored "
    "node is reduced (hi != Empty), variables strictly increase along both branches, children precede parents, and the hash index is a "
    "bijection (no triple stored twice). (B) lemma_canonical / lemma_table_canonical prove, by induction, that in any table satisfying wf "
    "two references denoting the same family are EQUAL (same root). (C) GC core: remap_to_new_table / remap_ref are verified to return, in "
    "the fresh table, a reference denoting exactly the family of the live handle, and the fresh table satisfies wf. NOT proved: gc's "
    "top-level glue (closure), and 'iteration yields each member exactly once' (see level note).", level="proof")


VERUS_UNITS["C03"] = _zdd_unit("C03",
    "FAMILY HALF ONLY. KleeneCapture::{new, extend, extend_simple, event_count} (sase.rs) are extracted and verified on top of the arena "
    "contracts: invariant next_var == events.len() == aliases.len(); and if every extension went through `extend`, the ZDD handle denotes "
    "EXACTLY the family of all subsets of {0..n-1} (each accumulated event optional, each combination represented once as a set, the new event "
    "always gets the fresh variable n). NOT decided here: enumerate_with_filter / evaluate_deferred_predicate / complete_run (filtering of "
    "consecutive members, non-empty requirement), the two cap comparisons in advance_run_shared (max Kleene events, max results) and the "
    "single-match path; they live in functions built on FxHashMap<String, Arc<Event>>, Instant and closures, outside both verifiers. A mutated "
    "cap is NOT detected by this check.", level="other")


def c31_witness(scratch):
    """bounded stand-in: the real validate_path on a real directory tree with symlinks (witness/c31); attaches inputs, proves nothing"""
    import shutil
    wdir = os.path.join(scratch, "witness-c31")
    shutil.rmtree(wdir, ignore_errors=True)
    shutil.copytree(os.path.join(VERIF, "witness/c31"), wdir)
    mp = os.path.join(wdir, "src/main.rs")
    src = open(mp).read().replace("@REPO@", vpv.REPO.rstrip("/"))
    open(mp, "w").write(src)
    tgt = os.path.join(scratch, "wit-target")
    rc, out = vpv.sh(["cargo", "build", "--offline", "--release"], cwd=wdir, env={"CARGO_TARGET_DIR": tgt}, timeout=900)
    if rc != 0:
        return dict(found=False, note="witness finder did not build: " + out[-400:])
    rc, out = vpv.sh([os.path.join(tgt, "release/vpv-c31-witness"), scratch], timeout=600)
    m = re.search(r"^WITNESS (.*)$", out, re.M)
    cmd = "copy /verif/witness/c31, replace @REPO@ by the repository path in src/main.rs, cargo run --release"
    if m:
        return dict(found=True, input=m.group(1), cmd=cmd)
    if rc != 0 and "NO-WITNESS" not in out:
        return dict(found=True, input="real code panicked: " + out[-600:], cmd=cmd)
    return dict(found=False, note=out.strip()[-300:])


VERUS_UNITS["C31"] = dict(prop="C31", witness=c31_witness, template="contracts/verus/c31.rs.tmpl", gen_name="c31", ledger="obligations/c31.json", level="proof",
    explanation=("validate_path (crates/varpulis-cli/src/security.rs) is extracted VERBATIM and verified by Verus against: Ok(p) ==> the work directory resolves, "
                 "the requested path (the request if absolute, else workdir/request) resolves, p IS that resolved path, and std reports p as lying under the RESOLVED work "
                 "directory — for every input string and every behaviour of the file system that canonicalize/starts_with can report (they are uninterpreted). "
                 "What is assumed, not proved: that Path::canonicalize resolves `..` and symlinks and that Path::starts_with is a component-wise prefix test (std's documented "
                 "contracts). Not covered: TOCTOU between check and use; callers (websocket.rs) using the returned path; validate_workdir."),
    assumptions=["assume_specification: Path::canonicalize, Path::starts_with, Path::is_absolute, Path::join, Path::display, <PathBuf as Deref>::deref (uninterpreted std::path model)",
                 "PathBuf::from(&str) carries no contract (the proof holds for whatever PathBuf it returns)"])


def windows_witness(scratch, cls):
    """bounded stand-in / witness finder for C12, C13: the real plain windows of varpulis-runtime against reference models (witness/windows)"""
    import shutil
    wdir = os.path.join(scratch, "witness-windows")
    shutil.rmtree(wdir, ignore_errors=True)
    shutil.copytree(os.path.join(VERIF, "witness/windows"), wdir)
    cp = os.path.join(wdir, "Cargo.toml")
    src = open(cp).read().replace("@REPO@", vpv.REPO.rstrip("/"))
    open(cp, "w").write(src)
    lock = os.path.join(vpv.REPO, "Cargo.lock")
    if os.path.exists(lock):
        shutil.copy(lock, os.path.join(wdir, "Cargo.lock"))
    tgt = os.path.join(scratch, "wit-target")
    rc, out = vpv.sh(["cargo", "build", "--offline", "--release"], cwd=wdir, env={"CARGO_TARGET_DIR": tgt}, timeout=2400)
    if rc != 0:
        return dict(found=False, note="witness finder did not build: " + out[-400:])
    rc, out = vpv.sh([os.path.join(tgt, "release/vpv-windows-witness"), cls], timeout=600)
    m = re.search(r"^WITNESS (.*)$", out, re.M)
    cmd = "copy /verif/witness/windows, replace @REPO@ by the repository path in Cargo.toml, cargo run --release -- " + cls
    if m:
        return dict(found=True, input=m.group(1), cmd=cmd)
    if rc != 0 and "NO-WITNESS" not in out:
        return dict(found=True, input="real code panicked: " + out[-600:], cmd=cmd)
    return dict(found=False, note=out.strip()[-300:])


VERUS_UNITS["C12"] = dict(prop="C12", witness=(lambda scratch: windows_witness(scratch, "C12")), template="contracts/verus/c12.rs.tmpl", gen_name="c12", ledger="obligations/c12.json", level="other",
    explanation=("PARTIAL: the plain count, tumbling and session windows (NOT the partitioned variants, which sit on hash maps keyed by strings, and not the engine glue that "
                 "routes events / watermarks to them). CountWindow::{new, add_shared, flush_shared, current_count}, TumblingWindow::{new, add_shared, flush_shared, advance_watermark}, "
                 "SessionWindow::{new, add_shared, flush_shared, check_expired, advance_watermark} (window.rs) and ColumnarBuffer::{new, with_capacity, push, take_all, len, is_empty} "
                 "(columnar.rs) are extracted mechanically and verified by Verus for every event, every time stamp (in order, out of order, ties) and every interleaving of arrivals "
                 "and watermarks, as ONE-STEP contracts over the buffered sequence: each call EITHER emits the whole buffer in arrival order and starts over (with the arriving event, "
                 "if any) OR emits nothing and appends the arriving event — so, by induction over calls, every event is emitted in exactly one closed window or still buffered, in "
                 "arrival order, never twice. Close rules are exact: count window at exactly `count` events; tumbling window iff the event / watermark is not earlier than start + "
                 "duration; session iff the event is more than `gap` after the previous arrival (watermark: not earlier than last + gap); a non-closing watermark changes nothing. "
                 "Invariants: every buffered event of a tumbling window is earlier than window start + duration (lemma: hence earlier than the FIRST buffered event + duration for "
                 "in-order streams); consecutive buffered events of a session are at most `gap` apart and the recorded last-event time is the last buffered event's time. "
                 "Not covered: add / flush clone shells, flush_columnar, checkpoint/restore, partitioned windows."),
    assumptions=["chrono model (contracts/verus/chrono_model.rs, R16): DateTime<Utc> / Duration are values with an integer view and `+`, `-`, `<`, `>=` are the mathematical "
                 "operations on it — chrono's overflow panics and its internal representation are NOT modelled",
                 "R14: `(c).then(|| e)` is `if c { Some(e) } else { None }` (definition of bool::then)",
                 "core::mem::take on Vec<T> returns the old vector and leaves an empty one (assumed contract vpv_mem_take_vec)",
                 "the event payload, chrono timestamp_millis and the FxHashMap column cache are opaque (their values do not influence which events are emitted)",
                 "count >= 1 (CountWindow::new(0) would emit every event as a window of one) and duration > 0 (TumblingWindow::new precondition)"])


VERUS_UNITS["C13"] = dict(prop="C13", witness=(lambda scratch: windows_witness(scratch, "C13")), template="contracts/verus/c13.rs.tmpl", gen_name="c13", ledger="obligations/c13.json", level="other",
    explanation=("PARTIAL: the plain count-sliding and time-sliding windows (NOT the partitioned variants, which sit on hash maps, nor IncrementalSlidingWindow). "
                 "SlidingCountWindow::{new, add_shared, current_count} and SlidingWindow::{new, add_shared, advance_watermark} (window.rs) are extracted mechanically and verified by "
                 "Verus. Count-sliding: after every arrival the retained events are exactly the last min(n, N) events in arrival order; an emission happens EXACTLY when the window is "
                 "full and at least `slide` events arrived since the previous emission, and it contains exactly the last N events in arrival order; the slide counter is reset on "
                 "emission and incremented otherwise. Time-sliding (in-order streams with ties — the precondition says the arriving event is not earlier than anything retained): after "
                 "every arrival the retained events are EXACTLY the events of (retained ++ [event]) whose time stamp is >= event time - window_size, in arrival order; an emission happens "
                 "EXACTLY when there was none before or event time >= previous emission time + slide_interval; it contains exactly the retained events and records the event time as the "
                 "new emission time; a watermark evicts exactly the events older than wm - window_size and emits under the same rule when something is retained."),
    assumptions=["chrono model (contracts/verus/chrono_model.rs, R16): DateTime<Utc> / Duration have an integer view and mathematical `+`, `-`, comparisons; overflow panics not modelled",
                 "R14: `c.then(|| e)` is `if c { Some(e) } else { None }`",
                 "R17: `q.iter().position(|e| e.timestamp OP t).unwrap_or(q.len())` returns the index of the first element satisfying OP, or the length (assumed contract; OP is an argument)",
                 "R18/R19: VecDeque::drain(0..n) removes the first n elements; iter().map(Arc::clone).collect() copies the contents front to back; VecDeque::is_empty; usize::saturating_sub (assumed std contracts)",
                 "window_size >= 1; events_since_emit < usize::MAX (2^64 arrivals without an emission would overflow the counter)"])
