"""Mechanical extraction of Rust items from /repo for Verus (DESIGN §2.2).

The generated Verus file is assembled from a *template* (hand-written specs, lemmas, contracts) in which
directives pull the executable text out of /repo's working tree on every run:

  //@EXTRACT file=<path rel. to /repo> item=<Type::fn | fn | struct Name | enum Name> [ret=<name>] [as=<new fn name>]
  //@CONTRACT            (text spliced between signature and body: requires/ensures/decreases)
  ...
  //@HINT entry         (proof block at function entry)
  //@HINT after=<callee>#<n>      (after the statement containing the n-th call of <callee>)
  //@HINT before=<callee>#<n>     (before the statement containing the n-th call of <callee>)
  //@LOOP <n>           (invariant/decreases text inserted before the `{` of the n-th loop)
  //@REWRITE "<literal>" -> "<literal>" [count=<k>]      (local rewrite, must hit exactly k times (default 1))
  //@END                (ends the directive group)

Everything between //@EXTRACT and //@END that is not executable comes from the template; the executable
text (signature, statements) comes only from /repo after the global rules R0..R8 and the declared
local rewrites.  A missing anchor / item / rewrite-count mismatch raises LostAnchor (exit 2).
"""
import re, os


class LostAnchor(Exception):
    pass


def blank(text):
    """Same-length copy with comments and string/char literal *contents* replaced by spaces."""
    out = list(text)
    i, n = 0, len(text)
    while i < n:
        c = text[i]
        if text.startswith("//", i):
            j = text.find("\n", i)
            j = n if j < 0 else j
            for k in range(i, j): out[k] = " "
            i = j
        elif text.startswith("/*", i):
            depth, j = 1, i + 2
            while j < n and depth:
                if text.startswith("/*", j): depth += 1; j += 2
                elif text.startswith("*/", j): depth -= 1; j += 2
                else: j += 1
            for k in range(i, j):
                if out[k] != "\n": out[k] = " "
            i = j
        elif c == '"':
            j = i + 1
            while j < n and text[j] != '"':
                j += 2 if text[j] == "\\" else 1
            for k in range(i + 1, min(j, n)):
                if out[k] != "\n": out[k] = " "
            i = j + 1
        elif c == "r" and re.match(r'r#*"', text[i:i + 6]) and (i == 0 or not (text[i - 1].isalnum() or text[i - 1] == "_")):
            m = re.match(r'r(#*)"', text[i:])
            close = '"' + m.group(1)
            j = text.find(close, i + len(m.group(0)))
            j = n if j < 0 else j
            for k in range(i + len(m.group(0)), j):
                if out[k] != "\n": out[k] = " "
            i = j + len(close)
        elif c == "'":
            # char literal vs lifetime
            m = re.match(r"'(\\.[^']*|[^'\\])'", text[i:])
            if m:
                for k in range(i + 1, i + len(m.group(0)) - 1): out[k] = " "
                i += len(m.group(0))
            else:
                i += 1
        else:
            i += 1
    return "".join(out)


def match_brace(bl, open_idx):
    assert bl[open_idx] == "{"
    d = 0
    for j in range(open_idx, len(bl)):
        if bl[j] == "{": d += 1
        elif bl[j] == "}":
            d -= 1
            if d == 0: return j
    raise LostAnchor("unbalanced braces")


def strip_comments(text):
    bl = blank(text)
    out = []
    i, n = 0, len(text)
    while i < n:
        if text.startswith("//", i) and bl[i] == " " and (i + 1 < n and bl[i + 1] == " "):
            j = text.find("\n", i)
            j = n if j < 0 else j
            i = j
        elif text.startswith("/*", i) and bl[i] == " ":
            j = i
            while j < n and bl[j] in " \n" and not (text.startswith("*/", j) and j > i):
                j += 1
            i = j + 2
        else:
            out.append(text[i]); i += 1
    s = "".join(out)
    return re.sub(r"[ \t]+\n", "\n", s)


def find_impl_ranges(text, bl, type_name):
    """ranges (body_open, body_close) of every `impl ... type_name ... {` at top level (any module depth)."""
    res = []
    for m in re.finditer(r"(?m)^[ \t]*impl\b([^{;]*)\{", bl):
        head = m.group(1)
        # the implementing type is the last path segment before generics / after `for`
        tgt = head.split(" for ")[-1]
        if re.search(r"\b" + re.escape(type_name) + r"\b", tgt):
            o = m.end() - 1
            res.append((o, match_brace(bl, o), head.strip()))
    return res


def find_fn(text, bl, name, lo=0, hi=None):
    hi = len(text) if hi is None else hi
    for m in re.finditer(r"\bfn\s+" + re.escape(name) + r"\s*[<(]", bl[lo:hi]):
        s = lo + m.start()
        # depth relative to range must be 1 for methods (inside impl braces) or 0 for free fns: caller passes range
        ls = text.rfind("\n", 0, s) + 1
        # find body open brace: first `{` at paren depth 0 after the parameter list
        j = lo + m.end() - 1
        d = 0
        while j < hi:
            ch = bl[j]
            if ch in "([": d += 1
            elif ch in ")]": d -= 1
            elif ch == "{" and d == 0: break
            elif ch == ";" and d == 0: raise LostAnchor(f"fn {name} has no body")
            j += 1
        close = match_brace(bl, j)
        # only accept if this fn is directly inside the range (not nested in another fn): brace depth check
        depth = bl[lo:s].count("{") - bl[lo:s].count("}")
        yield (ls, j, close, depth)


def extract_item(repo, relfile, item):
    """-> dict(kind, sig, body, line, impl_head)"""
    path = os.path.join(repo, relfile)
    if not os.path.exists(path):
        raise LostAnchor(f"{relfile} not found")
    text = open(path).read()
    # cut off #[cfg(test)] mod tests
    bl = blank(text)
    m = re.match(r"(struct|enum)\s+(\w+)$", item)
    if m:
        mm = re.search(r"(?m)^[ \t]*(pub(\([a-z]+\))?\s+)?" + m.group(1) + r"\s+" + m.group(2) + r"\b[^;{]*\{", bl)
        if not mm:
            raise LostAnchor(f"{item} not found in {relfile}")
        o = mm.end() - 1
        c = match_brace(bl, o)
        # derive line(s) directly above
        start = mm.start()
        attrs = []
        k = start
        while True:
            prev_end = text.rfind("\n", 0, k)
            prev_start = text.rfind("\n", 0, prev_end) + 1
            ln = text[prev_start:prev_end].strip()
            if ln.startswith("#[") or ln.startswith("///") or ln.startswith("//"):
                if ln.startswith("#["): attrs.insert(0, ln)
                k = prev_start
                if prev_start == 0: break
            else:
                break
        return dict(kind=m.group(1), attrs=attrs, text=text[mm.start():c + 1], line=text.count("\n", 0, mm.start()) + 1)
    if "::" in item:
        ty, fn = item.split("::", 1)
        cands = []
        for (o, c, head) in find_impl_ranges(text, bl, ty):
            for (ls, bo, bc, depth) in find_fn(text, bl, fn, o + 1, c):
                if depth == 0:
                    cands.append((ls, bo, bc, head))
        if not cands:
            raise LostAnchor(f"{item} not found in {relfile}")
        if len(cands) > 1:
            raise LostAnchor(f"{item} ambiguous in {relfile}")
        ls, bo, bc, head = cands[0]
    else:
        fn = item
        cands = [(ls, bo, bc, "") for (ls, bo, bc, depth) in find_fn(text, bl, fn) if depth == 0]
        if len(cands) != 1:
            raise LostAnchor(f"fn {item}: {len(cands)} top-level candidates in {relfile}")
        ls, bo, bc, head = cands[0]
    return dict(kind="fn", sig=text[ls:bo].strip(), body=text[bo + 1:bc], line=text.count("\n", 0, ls) + 1, impl_head=head)


# ---------------------------------------------------------------- global rewrite rules
RULE_HITS = {}


def hit(rule, n=1):
    if n:
        RULE_HITS[rule] = RULE_HITS.get(rule, 0) + n


def rule_sub(rule, pat, rep, s, flags=0):
    s2, n = re.subn(pat, rep, s, flags=flags)
    hit(rule, n)
    return s2


def global_rules_body(body):
    b = strip_comments(body)
    hit("R0.comments-dropped", 1 if b != body else 0)
    # R5 debug_assert! statements dropped (balanced parens up to `;`)
    while True:
        m = re.search(r"\bdebug_assert(_eq|_ne)?!\s*\(", b)
        if not m: break
        j, d = m.end() - 1, 0
        while j < len(b):
            if b[j] == "(": d += 1
            elif b[j] == ")":
                d -= 1
                if d == 0: break
            j += 1
        k = b.find(";", j)
        b = b[:m.start()] + b[k + 1:]
        hit("R5.debug_assert-dropped")
    # R1  `Some(&x) = e {`  ->  `Some(x__r) = e { let x = *x__r;`
    def r1(m):
        return f"Some({m.group(1)}__r) = {m.group(2)} {{ let {m.group(1)} = *{m.group(1)}__r;"
    # R1 in match arms first: `Some(&x) => {` and `Some(&x) => EXPR,`
    b = rule_sub("R1.ref-pattern-arm", r"Some\(&(\w+)\)\s*=>\s*\{", lambda m: f"Some({m.group(1)}__r) => {{ let {m.group(1)} = *{m.group(1)}__r;", b)
    b = rule_sub("R1.ref-pattern-arm", r"Some\(&(\w+)\)\s*=>\s*([^{,\n][^,\n]*),", lambda m: f"Some({m.group(1)}__r) => {{ let {m.group(1)} = *{m.group(1)}__r; {m.group(2)} }},", b)
    b = rule_sub("R1.ref-pattern", r"Some\(&(\w+)\)\s*=(?!>)\s*([^{]+?)\s*\{", r1, b)
    # R3 cache-key normalisation idiom on ZddRef: `if x <= y { (x, y) } else { (y, x) }` -> zddref_le(x, y)
    b = rule_sub("R3.zddref-order", r"\bif (\w+) <= (\w+) \{\s*\(\1, \2\)\s*\}\s*else\s*\{\s*\(\2, \1\)\s*\}",
                 lambda m: f"if zddref_le({m.group(1)}, {m.group(2)}) {{ ({m.group(1)}, {m.group(2)}) }} else {{ ({m.group(2)}, {m.group(1)}) }}", b)
    # R4 unreachable!() -> unreached()
    b = rule_sub("R4.unreachable", r"\bunreachable!\(\)", "unreached()", b)
    # R2/R6 hash containers
    b = rule_sub("R6.map-ctor", r"\bFxHash(Map|Set)::default\(\)", lambda m: "V" + m.group(1) + "::new()", b)
    b = rule_sub("R6.map-ctor", r"\bFxHash(Map|Set)::with_capacity_and_hasher\([^;]*?Default::default\(\)\)", lambda m: "V" + m.group(1) + "::new()", b)
    b = rule_sub("R2.map-type", r"\bFxHash(Map|Set)<", lambda m: "V" + m.group(1) + "<", b)
    b = rule_sub("R6.vec-capacity", r"\bVec::with_capacity\([^;]*?\)(?=[,;\s])", "Vec::new()", b)
    b = rule_sub("R16.chrono-type-name", r"\bDateTime<Utc>", "DateTimeUtc", b)
    return b


def loop_rules(body, sig):
    """R10: `let X: Vec<T> = RECV.iter().map(|p| E).collect();`  ->  `let mut X: Vec<T> = Vec::new(); for p in it_X: RECV.iter() { X.push(E); }`
       R11: `for p in S {` where S is a parameter declared `S: &[T]`  ->  `for p in it_p: S.iter() {`
       Both are the standard desugarings of std iterators over slices (assumed: slice::Iter/Map/collect visit every element once, in order)."""
    b = body
    while True:
        m = re.search(r"let\s+(\w+)\s*:\s*(Vec<[^=;]*>)\s*=\s*([\w.]+?)\s*\.iter\(\)\s*\.map\(\s*\|(\w+)\|", b)
        if not m:
            break
        j, d = m.end(), 1
        # closure body runs to the `)` closing `.map(`
        k = j
        while k < len(b) and d:
            if b[k] in "([{": d += 1
            elif b[k] in ")]}": d -= 1
            k += 1
        expr = b[j:k - 1].strip().rstrip(",").strip()
        tail = re.match(r"\s*\.collect\(\)\s*;", b[k:])
        if not tail:
            break
        name, ty, recv, pv = m.group(1), m.group(2), m.group(3), m.group(4)
        new = f"let mut {name}: {ty} = Vec::new();\n        for {pv} in it_{name}: {recv}.iter() {{\n            {name}.push({expr});\n        }}"
        b = b[:m.start()] + new + b[k + tail.end():]
        hit("R10.iter-map-collect->push-loop")
    # R12: reverse iteration over a Vec/slice local: `for &x in V.iter().rev() {`  ->  index loop from len-1 down to 0
    def r12(m):
        x, v = m.group(1), m.group(2)
        hit("R12.rev-iter->index-loop")
        return f"let mut i__{x}: usize = {v}.len(); while i__{x} > 0 {{ i__{x} -= 1; let {x} = {v}[i__{x}];"
    b = re.sub(r"\bfor\s+&(\w+)\s+in\s+(\w+)\.iter\(\)\.rev\(\)\s*\{", r12, b)
    # R13: std sort/dedup on a Vec<u32> local -> assumed-contract helpers
    b = rule_sub("R13.sort_unstable->assumed-contract", r"\b(\w+)\.sort_unstable\(\);", lambda m: f"vpv_sort_unstable(&mut {m.group(1)});", b)
    b = rule_sub("R13.dedup->assumed-contract", r"\b(\w+)\.dedup\(\);", lambda m: f"vpv_dedup(&mut {m.group(1)});", b)
    # R15: usize::saturating_sub on a simple receiver -> assumed-contract helper (templates using it define vpv_saturating_sub)
    b = rule_sub("R15.saturating_sub->assumed-contract", r"((?:\w+\.)*\w+(?:\(\))?)\.saturating_sub\(", lambda m: f"vpv_saturating_sub({m.group(1)}, ", b)
    # R17: `Q.iter().position(|e| e.timestamp OP T).unwrap_or(Q.len())` (index of the first element whose timestamp satisfies OP, or the
    #      length) -> assumed-contract helper vpv_position_ts(&Q, T, TsCmp::<Op>); the comparison operator is KEPT (it is an argument of the helper's contract)
    opn = {">=": "ge", ">": "gt", "<=": "le", "<": "lt"}
    b = rule_sub("R17.position-by-timestamp->assumed-contract",
                 r"((?:\w+\s*\.\s*)*\w+)\s*\.iter\(\)\s*\.position\(\s*\|(\w+)\|\s*\2\.timestamp\s*(>=|<=|>|<)\s*(\w+)\s*\)\s*\.unwrap_or\(\s*((?:\w+\s*\.\s*)*\w+)\.len\(\)\s*\)",
                 lambda m: f"vpv_position_ts(&{''.join(m.group(1).split())}, {m.group(4)}, TsCmp::{opn[m.group(3)].capitalize()})" if ''.join(m.group(1).split()) == ''.join(m.group(5).split()) else m.group(0), b)
    # R18: `Q.drain(0..N);` on a VecDeque removes the first N elements -> assumed-contract helper
    b = rule_sub("R18.drain-front->assumed-contract", r"((?:\w+\.)*\w+)\.drain\(0\.\.(\w+)\);", lambda m: f"vpv_deque_drain_front(&mut {m.group(1)}, {m.group(2)});", b)
    # R19: `Q.iter().map(Arc::clone).collect()` copies the contents front to back -> assumed-contract helper
    b = rule_sub("R19.iter-arc-clone-collect->assumed-contract", r"((?:\w+\.)*\w+)\.iter\(\)\.map\(Arc::clone\)\.collect\(\)", lambda m: f"vpv_deque_to_vec(&{m.group(1)})", b)
    # R14: `(COND).then(|| EXPR)` is by definition `if COND { Some(EXPR) } else { None }`
    while True:
        m = re.search(r"(?:\((?P<c>[^()]*(?:\([^()]*\)[^()]*)*)\)|\b(?P<c2>[a-z_]\w*))\s*\.then\(\s*\|\|\s*", b)
        if not m:
            break
        j, d = m.end(), 1
        k = j
        while k < len(b) and d:
            if b[k] in "([{": d += 1
            elif b[k] in ")]}": d -= 1
            k += 1
        expr = b[j:k - 1].strip().rstrip(",").strip()
        b = b[:m.start()] + f"if {m.group('c') or m.group('c2')} {{ Some({expr}) }} else {{ None }}" + b[k:]
        hit("R14.bool-then->if")
    def r11(m):
        pv, s_ = m.group(1), m.group(2)
        if re.search(r"\b" + re.escape(s_) + r"\s*:\s*&\[", sig):
            hit("R11.for-over-slice-param->named-iter")
            return f"for {pv} in it_{pv}: {s_}.iter() {{"
        return m.group(0)
    b = re.sub(r"\bfor\s+(\w+)\s+in\s+(\w+)\s*\{", r11, b)
    return b


def global_rules_sig(sig):
    s = strip_comments(sig)
    s = re.sub(r"(?m)^\s*#\[[^\]]*\]\s*$", "", s)          # R0 attributes
    s = rule_sub("R0.visibility-dropped", r"\bpub(\([a-z ]+\))?\s+", "", s)
    s = rule_sub("R2.map-type", r"\bFxHash(Map|Set)<", lambda m: "V" + m.group(1) + "<", s)
    s = rule_sub("R16.chrono-type-name", r"\bDateTime<Utc>", "DateTimeUtc", s)
    return " ".join(s.split())


def name_return(sig, ret):
    if not ret:
        return sig
    # split at top-level `->`
    d = 0
    for i in range(len(sig) - 1):
        c = sig[i]
        if c in "(<[": d += 1
        elif c in ")>]" and not (c == ">" and sig[i - 1] == "-"): d -= 1
        if sig[i:i + 2] == "->" and d == 0:
            ty = sig[i + 2:].strip()
            wh = ""
            m = re.search(r"\bwhere\b", ty)
            if m:
                ty, wh = ty[:m.start()].strip(), " " + ty[m.start():]
            hit("R9.named-return")
            return sig[:i].rstrip() + f" -> ({ret}: {ty})" + wh
    raise LostAnchor(f"no return type to name in `{sig}`")


def global_rules_struct(item):
    t = strip_comments(item["text"])
    t = re.sub(r"(?m)^\s*#\[[^\]]*\]\s*\n", "", t)          # inner attrs like #[default]
    t = rule_sub("R0.visibility-dropped", r"\bpub(\([a-z ]+\))?\s+", "", t)
    t = rule_sub("R2.map-type", r"\bFxHash(Map|Set)<", lambda m: "V" + m.group(1) + "<", t)
    t = rule_sub("R16.chrono-type-name", r"\bDateTime<Utc>", "DateTimeUtc", t)
    derives = []
    for a in item["attrs"]:
        m = re.match(r"#\[derive\((.*)\)\]", a)
        if m:
            derives += [d.strip() for d in m.group(1).split(",")]
    keep = [d for d in derives if d in ("Clone", "Copy", "PartialEq", "Eq")]
    if "Copy" not in keep and "Clone" in keep:
        keep.remove("Clone")      # derived Clone of a non-Copy struct: replaced by an assumed clone contract where needed
    dropped = [d for d in derives if d not in keep]
    hit("R0.derives-dropped:" + ",".join(sorted(dropped)), 1 if dropped else 0)
    if "PartialEq" in keep and "Eq" in keep:
        keep.append("Structural")
        hit("R0.Structural-added")
    head = f"#[derive({', '.join(keep)})]\n" if keep else ""
    return head + t


# ---------------------------------------------------------------- anchors inside bodies
def nth_call(body, callee, n):
    bl = blank(body)
    occ = [m.start() for m in re.finditer(r"(?<![\w])" + re.escape(callee) + r"\s*\(", bl)]
    if len(occ) < n:
        raise LostAnchor(f"anchor: call #{n} of `{callee}` not found ({len(occ)} calls)")
    return occ[n - 1], bl


def stmt_end_after(bl, pos):
    """End of the statement containing bl[pos]: after its `;`, or after the closing `}` of a block statement
    (`if`/`if let`/`while`/`for`/`loop`/`match` ... with its `else` chain)."""
    st = stmt_start_before(bl, pos)
    m = re.match(r"\s*(if|while|for|loop|match)\b", bl[st:])
    if m:
        j = st + m.end()
        while True:
            d = 0
            while j < len(bl):
                c = bl[j]
                if c in "([": d += 1
                elif c in ")]": d -= 1
                elif c == "{" and d == 0: break
                j += 1
            if j >= len(bl): raise LostAnchor("anchor: block statement without body")
            j = match_brace(bl, j) + 1
            m2 = re.match(r"\s*else\b", bl[j:])
            if not m2:
                return j
            j += m2.end()
    d = 0
    for j in range(pos, len(bl)):
        c = bl[j]
        if c in "([{": d += 1
        elif c in ")]}":
            d -= 1
            if d < 0: raise LostAnchor("anchor: statement has no terminating `;` (tail expression)")
        elif c == ";" and d == 0:
            return j + 1
    raise LostAnchor("anchor: no `;` after call")


def stmt_start_before(bl, pos):
    """Position just after the `;`, `{` or `}` that precedes the statement containing bl[pos]."""
    d = 0
    for j in range(pos - 1, -1, -1):
        c = bl[j]
        if c in ")]}":
            if c == "}" and d == 0:
                return j + 1
            d += 1
        elif c in "([{":
            if d == 0:
                if c == "{":
                    return j + 1
                continue          # the call is an argument of an enclosing call: keep scanning outward
            d -= 1
        elif c == ";" and d == 0:
            return j + 1
        elif c == ">" and j > 0 and bl[j - 1] == "=" and d == 0:
            raise LostAnchor("anchor: call is a bare match-arm expression (no statement position before it)")
    return 0


def tail_expr_start(body):
    """position where the function's tail expression starts (after the last `;` / block statement at depth 0)"""
    bl = blank(body)
    end = len(bl.rstrip())
    d = 0
    seen_token = False
    j = end - 1
    while j >= 0:
        c = bl[j]
        if c in ")]}":
            if c == "}" and d == 0 and seen_token:
                # end of a preceding block statement, unless what follows is an `else`
                if not re.match(r"\s*else\b", bl[j + 1:]):
                    return j + 1
            d += 1
        elif c in "([{":
            d -= 1
            if d < 0:
                return j + 1
        elif c == ";" and d == 0:
            return j + 1
        if not c.isspace():
            seen_token = True
        j -= 1
    return 0


def nth_loop_brace(body, n):
    bl = blank(body)
    occ = [m for m in re.finditer(r"\b(loop|while|for)\b", bl)]
    if len(occ) < n:
        raise LostAnchor(f"anchor: loop #{n} not found")
    j, d = occ[n - 1].end(), 0
    while j < len(bl):
        c = bl[j]
        if c in "([": d += 1
        elif c in ")]": d -= 1
        elif c == "{" and d == 0: return j
        j += 1
    raise LostAnchor("anchor: loop body not found")


def apply_group(repo, d):
    """d: parsed directive group -> generated text, meta"""
    item = extract_item(repo, d["file"], d["item"])
    meta = dict(file=d["file"], item=d["item"], line=item["line"])
    if item["kind"] in ("struct", "enum"):
        return global_rules_struct(item), meta
    sig = global_rules_sig(item["sig"])
    if d.get("as"):
        sig = re.sub(r"\bfn\s+\w+", "fn " + d["as"], sig, count=1)
    sig = name_return(sig, d.get("ret"))
    body = global_rules_body(item["body"])
    body = loop_rules(body, item["sig"])
    for (a, b, cnt) in d["rewrites"]:
        k = body.count(a) + sig.count(a)
        if k != cnt:
            raise LostAnchor(f"rewrite \"{a}\" expected {cnt} hit(s) in {d['item']}, found {k}")
        body = body.replace(a, b)
        sig = sig.replace(a, b)
        hit(f"local:{d['item']}:\"{a}\"->\"{b}\"", cnt)
    # anchors are resolved right-to-left so earlier insertions do not shift later positions
    ins = []
    for (kind, arg, text) in d["hints"]:
        if kind == "entry":
            ins.append((0, "\n" + text + "\n"))
        elif kind in ("after", "before"):
            callee, n = arg.rsplit("#", 1)
            pos, bl = nth_call(body, callee, int(n))
            p = stmt_end_after(bl, pos) if kind == "after" else stmt_start_before(bl, pos)
            ins.append((p, "\n" + text + "\n"))
        elif kind in ("aftertext", "beforetext"):
            lit, n = arg.rsplit("#", 1)
            bl = blank(body)
            occ = [m.start() for m in re.finditer(re.escape(lit), body) if bl[m.start()] == body[m.start()]]
            if len(occ) < int(n):
                raise LostAnchor(f"anchor: text `{lit}` occurrence #{n} not found ({len(occ)})")
            p = occ[int(n) - 1] + (len(lit) if kind == "aftertext" else 0)
            ins.append((p, "\n" + text + "\n"))
        elif kind == "loop":
            p = nth_loop_brace(body, int(arg))
            ins.append((p, "\n" + text + "\n"))
        elif kind == "loopbody":
            p = nth_loop_brace(body, int(arg)) + 1
            ins.append((p, "\n" + text + "\n"))
        elif kind == "tail":
            ins.append((tail_expr_start(body), "\n" + text + "\n"))
    ins = sorted(ins, key=lambda x: -x[0])
    for p, t in ins:
        body = body[:p] + t + body[p:]
    gen = d["item"]
    if d.get("as"):
        gen = (gen.rsplit("::", 1)[0] + "::" if "::" in gen else "") + d["as"]
    meta["gen_name"] = gen
    has_req = bool(re.search(r"\brequires\b", d.get("contract", "")))
    out = sig + "\n" + d.get("contract", "") + f"\n//VPV-BODY-START:{gen}:{'req' if has_req else 'noreq'}\n{{" + body + "}\n"
    return out, meta


DIRECTIVE = re.compile(r"^\s*//@(\w+)\s*(.*)$")


def expand_template(repo, tmpl_text):
    """-> (generated text, [meta per extracted item])"""
    lines = tmpl_text.split("\n")
    out, metas = [], []
    i = 0
    while i < len(lines):
        m = DIRECTIVE.match(lines[i])
        if m and m.group(1) == "INCLUDE":
            inc = open(os.path.join(os.path.dirname(os.path.dirname(os.path.abspath(__file__))), m.group(2).strip())).read()
            lines[i:i + 1] = inc.split("\n")
            continue
        if not m or m.group(1) != "EXTRACT":
            if m and m.group(1) not in ("EXTRACT",):
                raise LostAnchor(f"template line {i + 1}: stray directive {lines[i].strip()}")
            out.append(lines[i]); i += 1
            continue
        kv = dict(x.split("=", 1) for x in m.group(2).split())
        d = dict(file=kv["file"], item=kv["item"].replace("+", " "), ret=kv.get("ret"), rewrites=[], hints=[], contract="")
        if kv.get("as"): d["as"] = kv["as"]
        i += 1
        cur, buf = None, []
        def flush():
            nonlocal cur, buf
            if cur is None: return
            text = "\n".join(buf)
            if cur == ("contract",): d["contract"] = text
            else: d["hints"].append((cur[0], cur[1], text))
            cur, buf = None, []
        while i < len(lines):
            mm = DIRECTIVE.match(lines[i])
            if mm:
                k, arg = mm.group(1), mm.group(2).strip()
                if k == "END":
                    flush(); i += 1; break
                flush()
                if k == "CONTRACT": cur = ("contract",)
                elif k == "HINT":
                    if arg == "entry": cur = ("entry", None)
                    elif arg == "tail": cur = ("tail", None)
                    elif arg.startswith("after="): cur = ("after", arg[6:])
                    elif arg.startswith("before="): cur = ("before", arg[7:])
                    elif arg.startswith("beforetext="): cur = ("beforetext", arg[11:])
                    elif arg.startswith("aftertext="): cur = ("aftertext", arg[10:])
                    else: raise LostAnchor(f"bad HINT {arg}")
                elif k == "LOOP": cur = ("loop", arg)
                elif k == "LOOPBODY": cur = ("loopbody", arg)
                elif k == "REWRITE":
                    r = re.match(r'"(.*)"\s*->\s*"(.*)"(?:\s+count=(\d+))?$', arg)
                    if not r: raise LostAnchor(f"bad REWRITE {arg}")
                    d["rewrites"].append((r.group(1), r.group(2), int(r.group(3) or 1)))
                else:
                    raise LostAnchor(f"unknown directive {k}")
            else:
                buf.append(lines[i])
            i += 1
        else:
            raise LostAnchor("EXTRACT without END")
        text, meta = apply_group(repo, d)
        out.append(f"// ---- extracted from /repo/{meta['file']}:{meta['line']}  item {meta['item']} ----")
        out.append(text)
        metas.append(meta)
    return "\n".join(out), metas
