#!/bin/bash
# dev helper (not used by registered commands): refresh /var/tmp/vpv.dev from /repo and append a unit module
# usage: devsync.sh <file-rel-to-repo> <modname> <contract.rs> [...triples]
set -e
S=/var/tmp/vpv.dev; mkdir -p $S
cp /repo/Cargo.toml /repo/Cargo.lock $S/
rsync -a --checksum --exclude target /repo/crates $S/
while [ $# -ge 3 ]; do
  F=$S/$1; M=$2; C=$3; shift 3
  { echo; echo '#[cfg(any(kani, vpv_replay))]'; echo "pub mod $M {"; echo 'use super::*;'; cat /verif/contracts/kani/prelude.rs $C; echo '}'; } >> $F
done
