#!/usr/bin/env python3
"""Run every seeded change under /verif/seeded against its property's check.  The patch is applied to a scratch git worktree of
/repo's HEAD (outside /repo and /verif, removed afterwards) and the check is pointed at it with VPV_REPO, so /repo is never touched.
Not a registered command; records the outcome in seeded/<id>/meta.json (detected / missed / undecided)."""
import os, sys, json, subprocess, glob, re
only = sys.argv[1:]
WT = os.environ.get("VPV_SEEDED_WT", "/var/tmp/vpv-seeded-wt")
def git(*a, **k): return subprocess.run(["git"] + list(a), capture_output=True, text=True, **k)
git("-C", "/repo", "worktree", "remove", "--force", WT)
r = git("-C", "/repo", "worktree", "add", "--detach", WT, "HEAD")
if r.returncode != 0: print(r.stderr); sys.exit(2)
try:
    for d in sorted(glob.glob("/verif/seeded/C*")):
        name = os.path.basename(d)
        if only and name not in only and name.split("-")[0] not in only: continue
        prop = name.split("-")[0]
        git("-C", WT, "checkout", "--", "."); git("-C", WT, "clean", "-fdq")
        r = git("-C", WT, "apply", os.path.join(d, "patch.diff"))
        if r.returncode != 0:
            print(name, "PATCH DOES NOT APPLY", r.stderr[:200]); continue
        env = dict(os.environ, VPV_REPO=WT)
        p = subprocess.run(["/verif/bin/vcheck", prop] + (["--dev"] if os.environ.get("VPV_DEV") else []) + (["--only", os.environ["VPV_ONLY"]] if os.environ.get("VPV_ONLY") else []), capture_output=True, text=True, cwd="/verif", env=env)
        viol = re.findall(r"^VIOLATION .*obligation=(.*)$", p.stdout, re.M)
        outcome = "detected" if p.returncode == 1 and viol else ("undecided(exit 2)" if p.returncode == 2 else "missed")
        meta = json.load(open(os.path.join(d, "meta.json")))
        meta["check_outcome"] = dict(outcome=outcome, exit_code=p.returncode, violated_obligations=viol[:6], n_violations=len(viol),
                                     summary=(p.stdout.strip().splitlines() or [""])[-1][:300], stderr_tail=p.stderr.strip()[-300:])
        if os.environ.get("VPV_ONLY"):
            meta["check_outcome"]["restricted_to_cells"] = os.environ["VPV_ONLY"]
        meta["detected_by"] = (f"bin/vcheck {prop}: " + "; ".join(viol[:3])) if outcome == "detected" else None
        json.dump(meta, open(os.path.join(d, "meta.json"), "w"), indent=1)
        print(name, outcome, viol[:2], flush=True)
finally:
    git("-C", "/repo", "worktree", "remove", "--force", WT)
