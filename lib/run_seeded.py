#!/usr/bin/env python3
"""Run every seeded change under /verif/seeded against its property's check (patch applied to /repo, then reverted).
Not a registered command; records the outcome in seeded/<id>/meta.json (detected / missed / undecided)."""
import os, sys, json, subprocess, glob, re
only = sys.argv[1:] 
for d in sorted(glob.glob("/verif/seeded/*")):
    name = os.path.basename(d)
    if only and name not in only and name.split("-")[0] not in only: continue
    prop = name.split("-")[0]
    st = subprocess.run(["git", "-C", "/repo", "status", "--porcelain", "--untracked-files=no"], capture_output=True, text=True).stdout.strip()
    if st:
        print("refusing: /repo is dirty"); sys.exit(2)
    r = subprocess.run(["git", "-C", "/repo", "apply", os.path.join(d, "patch.diff")], capture_output=True, text=True)
    if r.returncode != 0:
        print(name, "PATCH DOES NOT APPLY", r.stderr[:200]); continue
    try:
        p = subprocess.run(["/verif/bin/vcheck", prop] + (["--dev"] if os.environ.get("VPV_DEV") else []), capture_output=True, text=True, cwd="/verif")
    finally:
        subprocess.run(["git", "-C", "/repo", "checkout", "--", "."])
    viol = re.findall(r"^VIOLATION .*obligation=(.*)$", p.stdout, re.M)
    outcome = "detected" if p.returncode == 1 and viol else ("undecided(exit 2)" if p.returncode == 2 else "missed")
    meta = json.load(open(os.path.join(d, "meta.json")))
    meta["check_outcome"] = dict(outcome=outcome, exit_code=p.returncode, violated_obligations=viol[:6], n_violations=len(viol),
                                 summary=(p.stdout.strip().splitlines() or [""])[-1][:300], stderr_tail=p.stderr.strip()[-300:])
    meta["detected_by"] = (f"bin/vcheck {prop}: " + "; ".join(viol[:3])) if outcome == "detected" else None
    json.dump(meta, open(os.path.join(d, "meta.json"), "w"), indent=1)
    print(name, outcome, viol[:2])
