// ---- chrono model (ASSUMED, DESIGN §8): DateTime<Utc> and chrono::Duration are opaque values with an integer view; `+`, `-` and the
// comparisons are the mathematical ones on the views (chrono's overflow panics are NOT modelled).  The extracted window code keeps its own
// operators: Verus resolves `a + d`, `a - b`, `a >= b`, `d > g` through these operator specifications (R16: type name only).
#[verifier::external_body]
#[derive(Clone, Copy)]
pub struct DateTimeUtc { ns: i128 }
#[verifier::external_body]
#[derive(Clone, Copy)]
pub struct Duration { ns: i128 }
pub uninterp spec fn tv(t: DateTimeUtc) -> int;
pub uninterp spec fn dv(d: Duration) -> int;
pub uninterp spec fn mk_t(i: int) -> DateTimeUtc;
pub uninterp spec fn mk_d(i: int) -> Duration;
pub broadcast axiom fn ax_mk_t(i: int) ensures #[trigger] tv(mk_t(i)) == i;
pub broadcast axiom fn ax_mk_d(i: int) ensures #[trigger] dv(mk_d(i)) == i;
pub broadcast axiom fn ax_t_ext(a: DateTimeUtc, b: DateTimeUtc) ensures (#[trigger] tv(a) == #[trigger] tv(b)) ==> a == b;

impl vstd::std_specs::ops::AddSpecImpl<Duration> for DateTimeUtc {
    open spec fn obeys_add_spec() -> bool { true }
    open spec fn add_req(self, rhs: Duration) -> bool { true }
    open spec fn add_spec(self, rhs: Duration) -> DateTimeUtc { mk_t(tv(self) + dv(rhs)) }
}
impl core::ops::Add<Duration> for DateTimeUtc {
    type Output = DateTimeUtc;
    #[verifier::external_body] fn add(self, rhs: Duration) -> DateTimeUtc { unimplemented!() }
}
impl vstd::std_specs::ops::SubSpecImpl<Duration> for DateTimeUtc {
    open spec fn obeys_sub_spec() -> bool { true }
    open spec fn sub_req(self, rhs: Duration) -> bool { true }
    open spec fn sub_spec(self, rhs: Duration) -> DateTimeUtc { mk_t(tv(self) - dv(rhs)) }
}
impl core::ops::Sub<Duration> for DateTimeUtc {
    type Output = DateTimeUtc;
    #[verifier::external_body] fn sub(self, rhs: Duration) -> DateTimeUtc { unimplemented!() }
}
impl vstd::std_specs::ops::SubSpecImpl<DateTimeUtc> for DateTimeUtc {
    open spec fn obeys_sub_spec() -> bool { true }
    open spec fn sub_req(self, rhs: DateTimeUtc) -> bool { true }
    open spec fn sub_spec(self, rhs: DateTimeUtc) -> Duration { mk_d(tv(self) - tv(rhs)) }
}
impl core::ops::Sub<DateTimeUtc> for DateTimeUtc {
    type Output = Duration;
    #[verifier::external_body] fn sub(self, rhs: DateTimeUtc) -> Duration { unimplemented!() }
}
impl vstd::std_specs::cmp::PartialEqSpecImpl for DateTimeUtc {
    open spec fn obeys_eq_spec() -> bool { true }
    open spec fn eq_spec(&self, o: &DateTimeUtc) -> bool { tv(*self) == tv(*o) }
}
impl PartialEq for DateTimeUtc { #[verifier::external_body] fn eq(&self, o: &DateTimeUtc) -> bool { unimplemented!() } }
impl vstd::std_specs::cmp::PartialOrdSpecImpl for DateTimeUtc {
    open spec fn obeys_partial_cmp_spec() -> bool { true }
    open spec fn partial_cmp_spec(&self, o: &DateTimeUtc) -> Option<core::cmp::Ordering> {
        if tv(*self) < tv(*o) { Some(core::cmp::Ordering::Less) } else if tv(*self) > tv(*o) { Some(core::cmp::Ordering::Greater) } else { Some(core::cmp::Ordering::Equal) }
    }
}
impl PartialOrd for DateTimeUtc { #[verifier::external_body] fn partial_cmp(&self, o: &DateTimeUtc) -> Option<core::cmp::Ordering> { unimplemented!() } }
impl vstd::std_specs::cmp::PartialEqSpecImpl for Duration {
    open spec fn obeys_eq_spec() -> bool { true }
    open spec fn eq_spec(&self, o: &Duration) -> bool { dv(*self) == dv(*o) }
}
impl PartialEq for Duration { #[verifier::external_body] fn eq(&self, o: &Duration) -> bool { unimplemented!() } }
impl vstd::std_specs::cmp::PartialOrdSpecImpl for Duration {
    open spec fn obeys_partial_cmp_spec() -> bool { true }
    open spec fn partial_cmp_spec(&self, o: &Duration) -> Option<core::cmp::Ordering> {
        if dv(*self) < dv(*o) { Some(core::cmp::Ordering::Less) } else if dv(*self) > dv(*o) { Some(core::cmp::Ordering::Greater) } else { Some(core::cmp::Ordering::Equal) }
    }
}
impl PartialOrd for Duration { #[verifier::external_body] fn partial_cmp(&self, o: &Duration) -> Option<core::cmp::Ordering> { unimplemented!() } }
// ---- end of chrono model ----
