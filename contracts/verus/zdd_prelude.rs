// ============================================================================================
// Part 0 — assumed contracts (rules R2/R3/R4/A1 of DESIGN §2.2).  Everything `external_body` here is an
// ASSUMPTION and is listed in the evidence by the mechanical scan.
// ============================================================================================

// R2: rustc_hash::FxHashMap<K,V> is modelled by its abstract map.  Assumes the derived Hash/Eq of the key types
// (ZddRef, ZddNode, tuples of them, u32) make it behave as a map keyed by structural equality.
#[verifier::external_body]
#[verifier::accept_recursive_types(K)]
#[verifier::accept_recursive_types(V)]
struct VMap<K, V> { k: core::marker::PhantomData<K>, v: core::marker::PhantomData<V> }
impl<K, V> VMap<K, V> {
    uninterp spec fn view(&self) -> Map<K, V>;
    #[verifier::external_body]
    fn new() -> (r: Self) ensures r@ == Map::<K,V>::empty() { unimplemented!() }
    #[verifier::external_body]
    fn get(&self, k: &K) -> (r: Option<&V>)
        ensures match r { Some(v) => self@.contains_key(*k) && *v == self@[*k], None => !self@.contains_key(*k) }
    { unimplemented!() }
    #[verifier::external_body]
    fn insert(&mut self, k: K, v: V)
        ensures final(self)@ == old(self)@.insert(k, v)
    { unimplemented!() }
    #[verifier::external_body]
    fn clear(&mut self)
        ensures final(self)@ == Map::<K,V>::empty()
    { unimplemented!() }
    // a hash map in a 64-bit address space cannot hold 2^60 entries (>= 16 bytes each): sums of a few lengths do not overflow
    #[verifier::external_body]
    fn len(&self) -> (r: usize) ensures r < 0x1000_0000_0000_0000 { unimplemented!() }
}

// R2: FxHashSet<K>
#[verifier::external_body]
#[verifier::accept_recursive_types(K)]
struct VSet<K> { k: core::marker::PhantomData<K> }
impl<K> VSet<K> {
    uninterp spec fn view(&self) -> Set<K>;
    #[verifier::external_body]
    fn new() -> (r: Self) ensures r@ == Set::<K>::empty() { unimplemented!() }
    #[verifier::external_body]
    fn insert(&mut self, k: K) -> (r: bool)
        ensures final(self)@ == old(self)@.insert(k), r == !old(self)@.contains(k)
    { unimplemented!() }
    #[verifier::external_body]
    fn len(&self) -> (r: usize) { unimplemented!() }
}

spec fn strictly_ascending(xs: Seq<u32>) -> bool {
    forall|i: int, j: int| 0 <= i < j < xs.len() ==> xs[i] < xs[j]
}
// ASSUMED contract of <[T]>::to_vec (instantiated at T = u32 only, where Clone is a bit copy)
pub assume_specification<T: Clone>[ <[T]>::to_vec ](s: &[T]) -> (r: Vec<T>) ensures r@ == s@;

// R13: ASSUMED contracts of std's slice::sort_unstable and Vec::dedup on Vec<u32>
spec fn sorted_le(xs: Seq<u32>) -> bool { forall|i: int, j: int| 0 <= i < j < xs.len() ==> xs[i] <= xs[j] }
#[verifier::external_body]
fn vpv_sort_unstable(v: &mut Vec<u32>) ensures final(v)@.to_set() == old(v)@.to_set(), sorted_le(final(v)@) { v.sort_unstable() }
#[verifier::external_body]
fn vpv_dedup(v: &mut Vec<u32>) requires sorted_le(old(v)@), ensures final(v)@.to_set() == old(v)@.to_set(), strictly_ascending(final(v)@) { v.dedup() }

// R3: the derived `Ord` on ZddRef, used only to normalise commutative cache keys.  No postcondition:
// every proof must go through for either answer.
#[verifier::external_body]
fn zddref_le(a: ZddRef, b: ZddRef) -> bool { unimplemented!() }

// R4: `unreachable!()` becomes an obligation (precondition false).
fn unreached() -> (r: ZddRef) requires false { ZddRef::Empty }

// ============================================================================================
// Part 1 — the semantics of a node table (hand-written specification)
// ============================================================================================

spec fn rank(r: ZddRef) -> int { match r { ZddRef::Node(id) => id as int + 1, _ => 0 } }
spec fn valid(r: ZddRef, n: int) -> bool { rank(r) <= n }
spec fn top(nodes: Seq<ZddNode>, r: ZddRef) -> int {
    match r { ZddRef::Node(id) => nodes[id as int].var as int, _ => 0x1_0000_0000 }
}
spec fn imin(a: int, b: int) -> int { if a <= b { a } else { b } }

// node i is reduced (hi != Empty), ordered (var strictly below both children), children precede it
spec fn node_ok(nodes: Seq<ZddNode>, i: int) -> bool {
    let nd = nodes[i];
    &&& valid(nd.lo, i) && valid(nd.hi, i)
    &&& nd.hi != ZddRef::Empty
    &&& (nd.var as int) < top(nodes, nd.lo)
    &&& (nd.var as int) < top(nodes, nd.hi)
}
spec fn nodes_ok(nodes: Seq<ZddNode>) -> bool {
    forall|i: int| 0 <= i < nodes.len() ==> #[trigger] node_ok(nodes, i)
}

// s is a member of the family denoted by r
spec fn mem(nodes: Seq<ZddNode>, r: ZddRef, s: Set<u32>) -> bool
    decreases rank(r)
{
    match r {
        ZddRef::Empty => false,
        ZddRef::Base => s =~= Set::<u32>::empty(),
        ZddRef::Node(id) => {
            if (id as int) < nodes.len() && valid(nodes[id as int].lo, id as int) && valid(nodes[id as int].hi, id as int) {
                let nd = nodes[id as int];
                mem(nodes, nd.lo, s) || (s.contains(nd.var) && mem(nodes, nd.hi, s.remove(nd.var)))
            } else { false }
        }
    }
}

spec fn same_old(n1: Seq<ZddNode>, n2: Seq<ZddNode>) -> bool {
    &&& n1.len() <= n2.len()
    &&& forall|i: int| 0 <= i < n1.len() ==> n1[i] == n2[i]
}

// frame: the table only grew, and every family denoted in the old table is unchanged
spec fn frame(n1: Seq<ZddNode>, n2: Seq<ZddNode>) -> bool {
    &&& same_old(n1, n2)
    &&& forall|r: ZddRef, s: Set<u32>| valid(r, n1.len() as int) ==> #[trigger] mem(n2, r, s) == mem(n1, r, s)
}

proof fn lemma_frame(n1: Seq<ZddNode>, n2: Seq<ZddNode>, r: ZddRef, s: Set<u32>)
    requires same_old(n1, n2), valid(r, n1.len() as int),
    ensures mem(n2, r, s) == mem(n1, r, s),
    decreases rank(r)
{
    match r {
        ZddRef::Node(id) => {
            let nd = n1[id as int];
            assert(n2[id as int] == nd);
            if valid(nd.lo, id as int) && valid(nd.hi, id as int) {
                lemma_frame(n1, n2, nd.lo, s);
                lemma_frame(n1, n2, nd.hi, s.remove(nd.var));
            }
        }
        _ => {}
    }
}

proof fn lemma_frame_all(n1: Seq<ZddNode>, n2: Seq<ZddNode>)
    requires same_old(n1, n2),
    ensures frame(n1, n2),
{
    assert forall|r: ZddRef, s: Set<u32>| valid(r, n1.len() as int) implies #[trigger] mem(n2, r, s) == mem(n1, r, s) by {
        lemma_frame(n1, n2, r, s);
    }
}

proof fn lemma_frame_trans(n1: Seq<ZddNode>, n2: Seq<ZddNode>, n3: Seq<ZddNode>)
    requires frame(n1, n2), frame(n2, n3),
    ensures frame(n1, n3),
{
    assert forall|r: ZddRef, s: Set<u32>| valid(r, n1.len() as int) implies #[trigger] mem(n3, r, s) == mem(n1, r, s) by {
        assert(mem(n2, r, s) == mem(n1, r, s));
        assert(mem(n3, r, s) == mem(n2, r, s));
    }
}

// every element of every member of r is >= top(r)   (uses the ordering invariant)
proof fn lemma_elems_ge_top(nodes: Seq<ZddNode>, r: ZddRef, s: Set<u32>, x: u32)
    requires nodes_ok(nodes), valid(r, nodes.len() as int), mem(nodes, r, s), s.contains(x),
    ensures (x as int) >= top(nodes, r),
    decreases rank(r)
{
    match r {
        ZddRef::Node(id) => {
            let nd = nodes[id as int];
            assert(node_ok(nodes, id as int));
            if mem(nodes, nd.lo, s) {
                lemma_elems_ge_top(nodes, nd.lo, s, x);
            } else {
                if x != nd.var {
                    lemma_elems_ge_top(nodes, nd.hi, s.remove(nd.var), x);
                }
            }
        }
        _ => {}
    }
}

spec fn elems_ge(nodes: Seq<ZddNode>, r: ZddRef) -> bool {
    forall|s: Set<u32>, x: u32| #[trigger] mem(nodes, r, s) && #[trigger] s.contains(x) ==> (x as int) >= top(nodes, r)
}

proof fn lemma_elems_ge_all(nodes: Seq<ZddNode>, r: ZddRef)
    requires nodes_ok(nodes), valid(r, nodes.len() as int),
    ensures elems_ge(nodes, r),
{
    assert forall|s: Set<u32>, x: u32| #[trigger] mem(nodes, r, s) && #[trigger] s.contains(x) implies (x as int) >= top(nodes, r) by {
        lemma_elems_ge_top(nodes, r, s, x);
    }
}

// number of member sets of r (as a mathematical natural number)
spec fn card(nodes: Seq<ZddNode>, r: ZddRef) -> nat
    decreases rank(r)
{
    match r {
        ZddRef::Empty => 0,
        ZddRef::Base => 1,
        ZddRef::Node(id) => {
            if (id as int) < nodes.len() && valid(nodes[id as int].lo, id as int) && valid(nodes[id as int].hi, id as int) {
                card(nodes, nodes[id as int].lo) + card(nodes, nodes[id as int].hi)
            } else { 0 }
        }
    }
}

proof fn lemma_card_frame(n1: Seq<ZddNode>, n2: Seq<ZddNode>, r: ZddRef)
    requires same_old(n1, n2), valid(r, n1.len() as int),
    ensures card(n2, r) == card(n1, r),
    decreases rank(r)
{
    match r {
        ZddRef::Node(id) => {
            let nd = n1[id as int];
            assert(n2[id as int] == nd);
            if valid(nd.lo, id as int) && valid(nd.hi, id as int) {
                lemma_card_frame(n1, n2, nd.lo);
                lemma_card_frame(n1, n2, nd.hi);
            }
        }
        _ => {}
    }
}

// Case analysis shared by every intersection implementation: how membership in a and b decomposes by top variable.
// (facts only about the *input* families in the entry table n0; the code's recursive results are related to these
//  by the callee contracts)
proof fn lemma_inter_cases(n0: Seq<ZddNode>, a: ZddRef, b: ZddRef, s: Set<u32>)
    requires nodes_ok(n0), valid(a, n0.len() as int), valid(b, n0.len() as int),
    ensures
        // a Node, b Node
        match (a, b) {
            (ZddRef::Node(ia), ZddRef::Node(ib)) => {
                let na = n0[ia as int]; let nb = n0[ib as int];
                if na.var < nb.var { (mem(n0, a, s) && mem(n0, b, s)) == (mem(n0, na.lo, s) && mem(n0, b, s)) }
                else if na.var > nb.var { (mem(n0, a, s) && mem(n0, b, s)) == (mem(n0, a, s) && mem(n0, nb.lo, s)) }
                else { (mem(n0, a, s) && mem(n0, b, s)) ==
                       ((mem(n0, na.lo, s) && mem(n0, nb.lo, s)) || (s.contains(na.var) && mem(n0, na.hi, s.remove(na.var)) && mem(n0, nb.hi, s.remove(na.var)))) }
            }
            (ZddRef::Node(ia), ZddRef::Base) => (mem(n0, a, s) && mem(n0, b, s)) == (mem(n0, n0[ia as int].lo, s) && mem(n0, ZddRef::Base, s)),
            (ZddRef::Base, ZddRef::Node(ib)) => (mem(n0, a, s) && mem(n0, b, s)) == (mem(n0, ZddRef::Base, s) && mem(n0, n0[ib as int].lo, s)),
            _ => true,
        }
{
    match (a, b) {
        (ZddRef::Node(ia), ZddRef::Node(ib)) => {
            let na = n0[ia as int]; let nb = n0[ib as int];
            assert(node_ok(n0, ia as int)); assert(node_ok(n0, ib as int));
            if na.var < nb.var {
                if s.contains(na.var) && mem(n0, b, s) { lemma_elems_ge_top(n0, b, s, na.var); }
            } else if na.var > nb.var {
                if s.contains(nb.var) && mem(n0, a, s) { lemma_elems_ge_top(n0, a, s, nb.var); }
            } else {
                if s.contains(na.var) {
                    if mem(n0, na.lo, s) { lemma_elems_ge_top(n0, na.lo, s, na.var); }
                    if mem(n0, nb.lo, s) { lemma_elems_ge_top(n0, nb.lo, s, na.var); }
                }
            }
        }
        (ZddRef::Node(ia), ZddRef::Base) => {
            let na = n0[ia as int];
            assert(node_ok(n0, ia as int));
            if s.contains(na.var) { assert(!(s =~= Set::<u32>::empty())); }
        }
        (ZddRef::Base, ZddRef::Node(ib)) => {
            let nb = n0[ib as int];
            assert(node_ok(n0, ib as int));
            if s.contains(nb.var) { assert(!(s =~= Set::<u32>::empty())); }
        }
        _ => {}
    }
}

proof fn lemma_diff_cases(n0: Seq<ZddNode>, a: ZddRef, b: ZddRef, s: Set<u32>)
    requires nodes_ok(n0), valid(a, n0.len() as int), valid(b, n0.len() as int),
    ensures
        match (a, b) {
            (ZddRef::Node(ia), ZddRef::Node(ib)) => {
                let na = n0[ia as int]; let nb = n0[ib as int];
                if na.var < nb.var {
                    (mem(n0, a, s) && !mem(n0, b, s)) ==
                        ((mem(n0, na.lo, s) && !mem(n0, b, s)) || (s.contains(na.var) && mem(n0, na.hi, s.remove(na.var))))
                } else if na.var > nb.var { (mem(n0, a, s) && !mem(n0, b, s)) == (mem(n0, a, s) && !mem(n0, nb.lo, s)) }
                else { (mem(n0, a, s) && !mem(n0, b, s)) ==
                       ((mem(n0, na.lo, s) && !mem(n0, nb.lo, s)) || (s.contains(na.var) && mem(n0, na.hi, s.remove(na.var)) && !mem(n0, nb.hi, s.remove(na.var)))) }
            }
            (ZddRef::Node(ia), ZddRef::Base) => {
                let na = n0[ia as int];
                (mem(n0, a, s) && !mem(n0, b, s)) ==
                    ((mem(n0, na.lo, s) && !mem(n0, ZddRef::Base, s)) || (s.contains(na.var) && mem(n0, na.hi, s.remove(na.var))))
            }
            (ZddRef::Base, ZddRef::Node(ib)) => (mem(n0, a, s) && !mem(n0, b, s)) == (mem(n0, ZddRef::Base, s) && !mem(n0, n0[ib as int].lo, s)),
            _ => true,
        }
{
    match (a, b) {
        (ZddRef::Node(ia), ZddRef::Node(ib)) => {
            let na = n0[ia as int]; let nb = n0[ib as int];
            assert(node_ok(n0, ia as int)); assert(node_ok(n0, ib as int));
            if na.var < nb.var {
                if s.contains(na.var) {
                    if mem(n0, b, s) { lemma_elems_ge_top(n0, b, s, na.var); }
                    if mem(n0, na.lo, s) { lemma_elems_ge_top(n0, na.lo, s, na.var); }
                }
            } else if na.var > nb.var {
                if s.contains(nb.var) {
                    if mem(n0, a, s) { lemma_elems_ge_top(n0, a, s, nb.var); }
                    if mem(n0, nb.lo, s) { lemma_elems_ge_top(n0, nb.lo, s, nb.var); }
                }
            } else {
                if s.contains(na.var) {
                    if mem(n0, na.lo, s) { lemma_elems_ge_top(n0, na.lo, s, na.var); }
                    if mem(n0, nb.lo, s) { lemma_elems_ge_top(n0, nb.lo, s, na.var); }
                }
            }
        }
        (ZddRef::Node(ia), ZddRef::Base) => {
            let na = n0[ia as int];
            assert(node_ok(n0, ia as int));
            if s.contains(na.var) { assert(!(s =~= Set::<u32>::empty())); }
        }
        (ZddRef::Base, ZddRef::Node(ib)) => {
            let nb = n0[ib as int];
            assert(node_ok(n0, ib as int));
            if s =~= Set::<u32>::empty() { assert(!s.contains(nb.var)); }
        }
        _ => {}
    }
}

// product_with_optional: P(x, s) := mem(x, s) || (var in s && mem(x, s - var))
spec fn pwo(nodes: Seq<ZddNode>, x: ZddRef, var: u32, s: Set<u32>) -> bool {
    mem(nodes, x, s) || (s.contains(var) && mem(nodes, x, s.remove(var)))
}

proof fn lemma_pwo_cases(n0: Seq<ZddNode>, node: ZddRef, var: u32, s: Set<u32>)
    requires nodes_ok(n0), valid(node, n0.len() as int), node is Node,
    ensures ({
        let nd = n0[node->Node_0 as int];
        if nd.var < var {
            pwo(n0, node, var, s) == (pwo(n0, nd.lo, var, s) || (s.contains(nd.var) && pwo(n0, nd.hi, var, s.remove(nd.var))))
        } else if nd.var == var {
            pwo(n0, node, var, s) == (mem(n0, nd.lo, s) || (s.contains(var) && (mem(n0, nd.lo, s.remove(var)) || mem(n0, nd.hi, s.remove(var)))))
        } else { true }
    })
{
    let nd = n0[node->Node_0 as int];
    assert(node_ok(n0, node->Node_0 as int));
    if nd.var < var {
        assert(s.remove(var).remove(nd.var) =~= s.remove(nd.var).remove(var));
    } else if nd.var == var {
    }
}

proof fn lemma_pwo_base(nodes: Seq<ZddNode>, r: ZddRef, var: u32)
    requires forall|s: Set<u32>| #[trigger] mem(nodes, r, s) == (mem(nodes, ZddRef::Base, s) || (s.contains(var) && mem(nodes, ZddRef::Base, s.remove(var)))),
    ensures forall|s: Set<u32>| #[trigger] mem(nodes, r, s) == pwo(nodes, ZddRef::Base, var, s),
{
}

spec fn pwo_cache_ok(c: Map<ZddRef, ZddRef>, nodes: Seq<ZddNode>, var: u32) -> bool {
    forall|k: ZddRef| #[trigger] c.contains_key(k) ==> {
        &&& valid(k, nodes.len() as int) && valid(c[k], nodes.len() as int)
        &&& top(nodes, c[k]) >= imin(top(nodes, k), var as int)
        &&& forall|s: Set<u32>| #[trigger] mem(nodes, c[k], s) == (mem(nodes, k, s) || (s.contains(var) && mem(nodes, k, s.remove(var))))
    }
}



// One step of the membership walk: with rest = xs[i..] (strictly ascending), at a node:
//   var == xs[i]  -> continue in hi with xs[i+1..]
//   var >  xs[i]  -> xs[i] can never appear below: not a member
//   otherwise     -> continue in lo with xs[i..]
// and at terminals: Base contains rest iff rest is empty.
proof fn lemma_contains_step(nodes: Seq<ZddNode>, cur: ZddRef, xs: Seq<u32>, i: int)
    requires nodes_ok(nodes), valid(cur, nodes.len() as int), strictly_ascending(xs), 0 <= i <= xs.len(),
    ensures ({
        let rest = xs.subrange(i, xs.len() as int).to_set();
        match cur {
            ZddRef::Empty => !mem(nodes, cur, rest),
            ZddRef::Base => mem(nodes, cur, rest) == (i == xs.len()),
            ZddRef::Node(id) => {
                let nd = nodes[id as int];
                if i < xs.len() && nd.var == xs[i] {
                    mem(nodes, cur, rest) == mem(nodes, nd.hi, xs.subrange(i + 1, xs.len() as int).to_set())
                } else if i < xs.len() && nd.var > xs[i] {
                    !mem(nodes, cur, rest)
                } else {
                    mem(nodes, cur, rest) == mem(nodes, nd.lo, rest)
                }
            }
        }
    })
{
    let rest_seq = xs.subrange(i, xs.len() as int);
    let rest = rest_seq.to_set();
    match cur {
        ZddRef::Empty => {}
        ZddRef::Base => {
            if i < xs.len() { assert(rest_seq[0] == xs[i]); assert(rest.contains(xs[i])); assert(!(rest =~= Set::<u32>::empty())); }
            else { assert(rest_seq.len() == 0); assert(rest =~= Set::<u32>::empty()); }
        }
        ZddRef::Node(id) => {
            let nd = nodes[id as int];
            assert(node_ok(nodes, id as int));
            if i < xs.len() && nd.var == xs[i] {
                let tail = xs.subrange(i + 1, xs.len() as int);
                assert(rest_seq[0] == xs[i]); assert(rest.contains(nd.var));
                // rest - var == tail (strict ascent: var does not reappear)
                assert(rest.remove(nd.var) =~= tail.to_set()) by {
                    assert forall|x: u32| rest.remove(nd.var).contains(x) == tail.to_set().contains(x) by {
                        if tail.to_set().contains(x) {
                            let k = choose|k: int| 0 <= k < tail.len() && tail[k] == x;
                            assert(rest_seq[k + 1] == x);
                            assert(xs[i] < xs[i + 1 + k]);
                        }
                        if rest.remove(nd.var).contains(x) {
                            let k = choose|k: int| 0 <= k < rest_seq.len() && rest_seq[k] == x;
                            assert(k != 0);
                            assert(tail[k - 1] == x);
                        }
                    }
                }
                // members of lo never contain var
                if mem(nodes, nd.lo, rest) { lemma_elems_ge_top(nodes, nd.lo, rest, nd.var); }
            } else if i < xs.len() && nd.var > xs[i] {
                assert(rest_seq[0] == xs[i]); assert(rest.contains(xs[i]));
                if mem(nodes, cur, rest) { lemma_elems_ge_top(nodes, cur, rest, xs[i]); }
            } else {
                // var not in rest: either rest is empty or var < xs[i] <= every element of rest
                if rest.contains(nd.var) {
                    let k = choose|k: int| 0 <= k < rest_seq.len() && rest_seq[k] == nd.var;
                    assert(xs[i + k] == nd.var);
                    if k > 0 { assert(xs[i] < xs[i + k]); }
                    assert(false);
                }
            }
        }
    }
}

// node_map / remap tables used when copying nodes from a source table into a destination table
spec fn remap_ok(m: Map<u32, ZddRef>, src: Seq<ZddNode>, dst: Seq<ZddNode>) -> bool {
    forall|id: u32| #[trigger] m.contains_key(id) ==> {
        &&& (id as int) < src.len()
        &&& valid(m[id], dst.len() as int)
        &&& top(dst, m[id]) >= src[id as int].var as int
        &&& forall|s: Set<u32>| #[trigger] mem(dst, m[id], s) == mem(src, ZddRef::Node(id), s)
    }
}

// ============================================================================================
// Canonicity (C07): in a table satisfying the invariant, two references denoting the same family are equal
// ============================================================================================
spec fn no_dup(nodes: Seq<ZddNode>) -> bool {
    forall|i: int, j: int| 0 <= i < nodes.len() && 0 <= j < nodes.len() && nodes[i] == nodes[j] ==> i == j
}

// a canonical member of a non-Empty reference: always take the hi branch
spec fn wit(nodes: Seq<ZddNode>, r: ZddRef) -> Set<u32>
    decreases rank(r)
{
    match r {
        ZddRef::Node(id) => {
            if (id as int) < nodes.len() && valid(nodes[id as int].lo, id as int) && valid(nodes[id as int].hi, id as int) {
                wit(nodes, nodes[id as int].hi).insert(nodes[id as int].var)
            } else { Set::<u32>::empty() }
        }
        _ => Set::<u32>::empty(),
    }
}

proof fn lemma_nonempty(nodes: Seq<ZddNode>, r: ZddRef)
    requires nodes_ok(nodes), valid(r, nodes.len() as int), r != ZddRef::Empty,
    ensures mem(nodes, r, wit(nodes, r)), r is Node ==> wit(nodes, r).contains(nodes[r->Node_0 as int].var),
    decreases rank(r)
{
    match r {
        ZddRef::Node(id) => {
            let nd = nodes[id as int];
            assert(node_ok(nodes, id as int));
            lemma_nonempty(nodes, nd.hi);
            let w = wit(nodes, nd.hi);
            if w.contains(nd.var) { lemma_elems_ge_top(nodes, nd.hi, w, nd.var); }
            assert(w.insert(nd.var).remove(nd.var) =~= w);
        }
        _ => {}
    }
}

proof fn lemma_canonical(nodes: Seq<ZddNode>, r1: ZddRef, r2: ZddRef)
    requires nodes_ok(nodes), no_dup(nodes), valid(r1, nodes.len() as int), valid(r2, nodes.len() as int),
        forall|s: Set<u32>| mem(nodes, r1, s) == mem(nodes, r2, s),
    ensures r1 == r2,
    decreases rank(r1) + rank(r2)
{
    if r1 != ZddRef::Empty { lemma_nonempty(nodes, r1); assert(mem(nodes, r2, wit(nodes, r1))); }
    if r2 != ZddRef::Empty { lemma_nonempty(nodes, r2); assert(mem(nodes, r1, wit(nodes, r2))); }
    match (r1, r2) {
        (ZddRef::Node(i1), ZddRef::Node(i2)) => {
            let n1 = nodes[i1 as int]; let n2 = nodes[i2 as int];
            assert(node_ok(nodes, i1 as int)); assert(node_ok(nodes, i2 as int));
            if n1.var < n2.var {
                lemma_elems_ge_top(nodes, r2, wit(nodes, r1), n1.var);
            } else if n2.var < n1.var {
                lemma_elems_ge_top(nodes, r1, wit(nodes, r2), n2.var);
            } else {
                let v = n1.var;
                assert forall|s: Set<u32>| mem(nodes, n1.lo, s) == mem(nodes, n2.lo, s) by {
                    if mem(nodes, n1.lo, s) {
                        if s.contains(v) { lemma_elems_ge_top(nodes, n1.lo, s, v); }
                        assert(mem(nodes, r1, s)); assert(mem(nodes, r2, s));
                    }
                    if mem(nodes, n2.lo, s) {
                        if s.contains(v) { lemma_elems_ge_top(nodes, n2.lo, s, v); }
                        assert(mem(nodes, r2, s)); assert(mem(nodes, r1, s));
                    }
                }
                assert forall|t: Set<u32>| mem(nodes, n1.hi, t) == mem(nodes, n2.hi, t) by {
                    let s = t.insert(v);
                    if mem(nodes, n1.hi, t) {
                        if t.contains(v) { lemma_elems_ge_top(nodes, n1.hi, t, v); }
                        assert(s.remove(v) =~= t);
                        assert(mem(nodes, r1, s)); assert(mem(nodes, r2, s));
                        if mem(nodes, n2.lo, s) { lemma_elems_ge_top(nodes, n2.lo, s, v); }
                    }
                    if mem(nodes, n2.hi, t) {
                        if t.contains(v) { lemma_elems_ge_top(nodes, n2.hi, t, v); }
                        assert(s.remove(v) =~= t);
                        assert(mem(nodes, r2, s)); assert(mem(nodes, r1, s));
                        if mem(nodes, n1.lo, s) { lemma_elems_ge_top(nodes, n1.lo, s, v); }
                    }
                }
                lemma_canonical(nodes, n1.lo, n2.lo);
                lemma_canonical(nodes, n1.hi, n2.hi);
                assert(n1 == n2);
            }
        }
        (ZddRef::Node(i1), ZddRef::Base) => {
            assert(wit(nodes, r1) =~= Set::<u32>::empty());
        }
        (ZddRef::Base, ZddRef::Node(i2)) => {
            assert(wit(nodes, r2) =~= Set::<u32>::empty());
        }
        _ => {}
    }
}

proof fn lemma_union_cases(n0: Seq<ZddNode>, a: ZddRef, b: ZddRef, s: Set<u32>)
    requires nodes_ok(n0), valid(a, n0.len() as int), valid(b, n0.len() as int),
    ensures
        match (a, b) {
            (ZddRef::Node(ia), ZddRef::Node(ib)) => {
                let na = n0[ia as int]; let nb = n0[ib as int];
                if na.var < nb.var { (mem(n0, a, s) || mem(n0, b, s)) == ((mem(n0, na.lo, s) || mem(n0, b, s)) || (s.contains(na.var) && mem(n0, na.hi, s.remove(na.var)))) }
                else if na.var > nb.var { (mem(n0, a, s) || mem(n0, b, s)) == ((mem(n0, a, s) || mem(n0, nb.lo, s)) || (s.contains(nb.var) && mem(n0, nb.hi, s.remove(nb.var)))) }
                else { (mem(n0, a, s) || mem(n0, b, s)) ==
                       ((mem(n0, na.lo, s) || mem(n0, nb.lo, s)) || (s.contains(na.var) && (mem(n0, na.hi, s.remove(na.var)) || mem(n0, nb.hi, s.remove(na.var))))) }
            }
            (ZddRef::Node(ia), ZddRef::Base) => {
                let na = n0[ia as int];
                (mem(n0, a, s) || mem(n0, b, s)) == ((mem(n0, na.lo, s) || mem(n0, ZddRef::Base, s)) || (s.contains(na.var) && mem(n0, na.hi, s.remove(na.var))))
            }
            (ZddRef::Base, ZddRef::Node(ib)) => {
                let nb = n0[ib as int];
                (mem(n0, a, s) || mem(n0, b, s)) == ((mem(n0, ZddRef::Base, s) || mem(n0, nb.lo, s)) || (s.contains(nb.var) && mem(n0, nb.hi, s.remove(nb.var))))
            }
            _ => true,
        }
{
    if let ZddRef::Node(ia) = a { assert(node_ok(n0, ia as int)); }
    if let ZddRef::Node(ib) = b { assert(node_ok(n0, ib as int)); }
}

// ============================================================================================
// Operation caches (memo tables).  op: 0 = union, 1 = intersection, 2 = difference
// ============================================================================================
spec fn bop(op: int, x: bool, y: bool) -> bool { if op == 0 { x || y } else if op == 1 { x && y } else { x && !y } }
spec fn topc(op: int, ta: int, tb: int, tr: int) -> bool { if op == 2 { tr >= ta } else { tr >= imin(ta, tb) } }
spec fn res_ok(op: int, nodes: Seq<ZddNode>, a: ZddRef, b: ZddRef, r: ZddRef) -> bool {
    &&& valid(a, nodes.len() as int) && valid(b, nodes.len() as int) && valid(r, nodes.len() as int)
    &&& topc(op, top(nodes, a), top(nodes, b), top(nodes, r))
    &&& forall|s: Set<u32>| #[trigger] mem(nodes, r, s) == bop(op, mem(nodes, a, s), mem(nodes, b, s))
}
#[verifier::opaque]
spec fn cache_ok_bin(op: int, c: Map<(ZddRef, ZddRef), ZddRef>, nodes: Seq<ZddNode>) -> bool {
    forall|a: ZddRef, b: ZddRef| #[trigger] c.contains_key((a, b)) ==> res_ok(op, nodes, a, b, c[(a, b)])
}
#[verifier::opaque]
spec fn cache_ok_count(c: Map<ZddRef, usize>, nodes: Seq<ZddNode>) -> bool {
    forall|r: ZddRef| #[trigger] c.contains_key(r) ==> valid(r, nodes.len() as int) && c[r] as nat == card(nodes, r)
}

proof fn lemma_cb_empty(op: int, nodes: Seq<ZddNode>)
    ensures cache_ok_bin(op, Map::<(ZddRef, ZddRef), ZddRef>::empty(), nodes)
{ reveal(cache_ok_bin); }

proof fn lemma_cc_empty(nodes: Seq<ZddNode>)
    ensures cache_ok_count(Map::<ZddRef, usize>::empty(), nodes)
{ reveal(cache_ok_count); }

proof fn lemma_cb_get(op: int, c: Map<(ZddRef, ZddRef), ZddRef>, nodes: Seq<ZddNode>, a: ZddRef, b: ZddRef)
    requires cache_ok_bin(op, c, nodes), c.contains_key((a, b)), 0 <= op <= 2,
    ensures res_ok(op, nodes, a, b, c[(a, b)]),
        op == 0 ==> forall|s: Set<u32>| #[trigger] mem(nodes, c[(a, b)], s) == (mem(nodes, a, s) || mem(nodes, b, s)),
        op == 1 ==> forall|s: Set<u32>| #[trigger] mem(nodes, c[(a, b)], s) == (mem(nodes, a, s) && mem(nodes, b, s)),
        op == 2 ==> forall|s: Set<u32>| #[trigger] mem(nodes, c[(a, b)], s) == (mem(nodes, a, s) && !mem(nodes, b, s)),
{ reveal(cache_ok_bin); }

proof fn lemma_cb_insert(op: int, c: Map<(ZddRef, ZddRef), ZddRef>, nodes: Seq<ZddNode>, a: ZddRef, b: ZddRef, r: ZddRef)
    requires cache_ok_bin(op, c, nodes), 0 <= op <= 2,
        valid(a, nodes.len() as int), valid(b, nodes.len() as int), valid(r, nodes.len() as int),
        topc(op, top(nodes, a), top(nodes, b), top(nodes, r)),
        forall|s: Set<u32>| #[trigger] mem(nodes, r, s) == bop(op, mem(nodes, a, s), mem(nodes, b, s)),
    ensures cache_ok_bin(op, c.insert((a, b), r), nodes),
{ reveal(cache_ok_bin); }

proof fn lemma_cb_frame(op: int, c: Map<(ZddRef, ZddRef), ZddRef>, n1: Seq<ZddNode>, n2: Seq<ZddNode>)
    requires cache_ok_bin(op, c, n1), frame(n1, n2),
    ensures cache_ok_bin(op, c, n2),
{
    reveal(cache_ok_bin);
    assert forall|a: ZddRef, b: ZddRef| #[trigger] c.contains_key((a, b)) implies res_ok(op, n2, a, b, c[(a, b)]) by {
        assert(res_ok(op, n1, a, b, c[(a, b)]));
        assert(top(n2, c[(a, b)]) == top(n1, c[(a, b)])); assert(top(n2, a) == top(n1, a)); assert(top(n2, b) == top(n1, b));
        assert forall|s: Set<u32>| #[trigger] mem(n2, c[(a, b)], s) == bop(op, mem(n2, a, s), mem(n2, b, s)) by {
            assert(mem(n2, c[(a, b)], s) == mem(n1, c[(a, b)], s));
            assert(mem(n2, a, s) == mem(n1, a, s)); assert(mem(n2, b, s) == mem(n1, b, s));
        }
    }
}

proof fn lemma_cc_frame(c: Map<ZddRef, usize>, n1: Seq<ZddNode>, n2: Seq<ZddNode>)
    requires cache_ok_count(c, n1), frame(n1, n2),
    ensures cache_ok_count(c, n2),
{
    reveal(cache_ok_count);
    assert forall|r: ZddRef| #[trigger] c.contains_key(r) implies valid(r, n2.len() as int) && c[r] as nat == card(n2, r) by {
        lemma_card_frame(n1, n2, r);
    }
}

proof fn lemma_pwo_frame(c: Map<ZddRef, ZddRef>, n1: Seq<ZddNode>, n2: Seq<ZddNode>, var: u32)
    requires pwo_cache_ok(c, n1, var), frame(n1, n2),
    ensures pwo_cache_ok(c, n2, var),
{
    assert forall|k: ZddRef| #[trigger] c.contains_key(k) implies ({
        &&& valid(k, n2.len() as int) && valid(c[k], n2.len() as int)
        &&& top(n2, c[k]) >= imin(top(n2, k), var as int)
        &&& forall|s: Set<u32>| #[trigger] mem(n2, c[k], s) == (mem(n2, k, s) || (s.contains(var) && mem(n2, k, s.remove(var))))
    }) by {
        assert(top(n2, c[k]) == top(n1, c[k])); assert(top(n2, k) == top(n1, k));
        assert forall|s: Set<u32>| #[trigger] mem(n2, c[k], s) == (mem(n2, k, s) || (s.contains(var) && mem(n2, k, s.remove(var)))) by {
            assert(mem(n2, c[k], s) == mem(n1, c[k], s)); assert(mem(n2, k, s) == mem(n1, k, s));
            assert(mem(n2, k, s.remove(var)) == mem(n1, k, s.remove(var)));
        }
    }
}

// ============================================================================================
// Family product:  s in a (x) b  <=>  exists x in a, y in b with s = x ∪ y
// ============================================================================================
spec fn prod(nodes: Seq<ZddNode>, a: ZddRef, b: ZddRef, s: Set<u32>) -> bool {
    exists|x: Set<u32>, y: Set<u32>| #![trigger mem(nodes, a, x), mem(nodes, b, y)] mem(nodes, a, x) && mem(nodes, b, y) && s =~= x.union(y)
}

proof fn lemma_prod_intro(nodes: Seq<ZddNode>, a: ZddRef, b: ZddRef, s: Set<u32>, x: Set<u32>, y: Set<u32>)
    requires mem(nodes, a, x), mem(nodes, b, y), s =~= x.union(y),
    ensures prod(nodes, a, b, s),
{ }

proof fn lemma_prod_sym(nodes: Seq<ZddNode>, a: ZddRef, b: ZddRef, s: Set<u32>)
    ensures prod(nodes, a, b, s) == prod(nodes, b, a, s),
{
    if prod(nodes, a, b, s) {
        let (x, y) = choose|x: Set<u32>, y: Set<u32>| #![trigger mem(nodes, a, x), mem(nodes, b, y)] mem(nodes, a, x) && mem(nodes, b, y) && s =~= x.union(y);
        assert(s =~= y.union(x));
        lemma_prod_intro(nodes, b, a, s, y, x);
    }
    if prod(nodes, b, a, s) {
        let (y, x) = choose|y: Set<u32>, x: Set<u32>| #![trigger mem(nodes, b, y), mem(nodes, a, x)] mem(nodes, b, y) && mem(nodes, a, x) && s =~= y.union(x);
        assert(s =~= x.union(y));
        lemma_prod_intro(nodes, a, b, s, x, y);
    }
}

proof fn lemma_prod_terminal(nodes: Seq<ZddNode>, a: ZddRef, b: ZddRef, s: Set<u32>)
    ensures
        a == ZddRef::Empty || b == ZddRef::Empty ==> !prod(nodes, a, b, s),
        a == ZddRef::Base ==> prod(nodes, a, b, s) == mem(nodes, b, s),
        b == ZddRef::Base ==> prod(nodes, a, b, s) == mem(nodes, a, s),
{
    let e = Set::<u32>::empty();
    if a == ZddRef::Base {
        if mem(nodes, b, s) { assert(s =~= e.union(s)); lemma_prod_intro(nodes, a, b, s, e, s); }
        if prod(nodes, a, b, s) {
            let (x, y) = choose|x: Set<u32>, y: Set<u32>| #![trigger mem(nodes, a, x), mem(nodes, b, y)] mem(nodes, a, x) && mem(nodes, b, y) && s =~= x.union(y);
            assert(x =~= e); assert(x.union(y) =~= y); assert(s == y);
        }
    }
    if b == ZddRef::Base {
        if mem(nodes, a, s) { assert(s =~= s.union(e)); lemma_prod_intro(nodes, a, b, s, s, e); }
        if prod(nodes, a, b, s) {
            let (x, y) = choose|x: Set<u32>, y: Set<u32>| #![trigger mem(nodes, a, x), mem(nodes, b, y)] mem(nodes, a, x) && mem(nodes, b, y) && s =~= x.union(y);
            assert(y =~= e); assert(x.union(y) =~= x); assert(s == x);
        }
    }
}

// a's top variable is strictly smaller than b's: split on whether the a-part contains it
proof fn lemma_prod_lt(n0: Seq<ZddNode>, a: ZddRef, b: ZddRef, s: Set<u32>)
    requires nodes_ok(n0), valid(a, n0.len() as int), valid(b, n0.len() as int), a is Node,
        (n0[a->Node_0 as int].var as int) < top(n0, b),
    ensures ({
        let na = n0[a->Node_0 as int];
        prod(n0, a, b, s) == (prod(n0, na.lo, b, s) || (s.contains(na.var) && prod(n0, na.hi, b, s.remove(na.var))))
    })
{
    let na = n0[a->Node_0 as int]; let v = na.var;
    assert(node_ok(n0, a->Node_0 as int));
    if prod(n0, a, b, s) {
        let (x, y) = choose|x: Set<u32>, y: Set<u32>| #![trigger mem(n0, a, x), mem(n0, b, y)] mem(n0, a, x) && mem(n0, b, y) && s =~= x.union(y);
        if mem(n0, na.lo, x) {
            lemma_prod_intro(n0, na.lo, b, s, x, y);
        } else {
            assert(x.contains(v) && mem(n0, na.hi, x.remove(v)));
            if y.contains(v) { lemma_elems_ge_top(n0, b, y, v); }
            assert(s.remove(v) =~= x.remove(v).union(y));
            lemma_prod_intro(n0, na.hi, b, s.remove(v), x.remove(v), y);
        }
    }
    if prod(n0, na.lo, b, s) {
        let (x, y) = choose|x: Set<u32>, y: Set<u32>| #![trigger mem(n0, na.lo, x), mem(n0, b, y)] mem(n0, na.lo, x) && mem(n0, b, y) && s =~= x.union(y);
        assert(mem(n0, a, x));
        lemma_prod_intro(n0, a, b, s, x, y);
    }
    if s.contains(v) && prod(n0, na.hi, b, s.remove(v)) {
        let t = s.remove(v);
        let (x1, y) = choose|x1: Set<u32>, y: Set<u32>| #![trigger mem(n0, na.hi, x1), mem(n0, b, y)] mem(n0, na.hi, x1) && mem(n0, b, y) && t =~= x1.union(y);
        if x1.contains(v) { lemma_elems_ge_top(n0, na.hi, x1, v); }
        let x = x1.insert(v);
        assert(x.remove(v) =~= x1);
        assert(mem(n0, a, x));
        assert(s =~= x.union(y));
        lemma_prod_intro(n0, a, b, s, x, y);
    }
}

// equal top variables
proof fn lemma_prod_eq(n0: Seq<ZddNode>, a: ZddRef, b: ZddRef, s: Set<u32>)
    requires nodes_ok(n0), valid(a, n0.len() as int), valid(b, n0.len() as int), a is Node, b is Node,
        n0[a->Node_0 as int].var == n0[b->Node_0 as int].var,
    ensures ({
        let na = n0[a->Node_0 as int]; let nb = n0[b->Node_0 as int]; let v = na.var; let t = s.remove(v);
        prod(n0, a, b, s) == (prod(n0, na.lo, nb.lo, s) || (s.contains(v) && (prod(n0, na.hi, nb.lo, t) || prod(n0, na.lo, nb.hi, t) || prod(n0, na.hi, nb.hi, t))))
    })
{
    let na = n0[a->Node_0 as int]; let nb = n0[b->Node_0 as int]; let v = na.var; let t = s.remove(v);
    assert(node_ok(n0, a->Node_0 as int)); assert(node_ok(n0, b->Node_0 as int));
    if prod(n0, a, b, s) {
        let (x, y) = choose|x: Set<u32>, y: Set<u32>| #![trigger mem(n0, a, x), mem(n0, b, y)] mem(n0, a, x) && mem(n0, b, y) && s =~= x.union(y);
        let xlo = mem(n0, na.lo, x); let ylo = mem(n0, nb.lo, y);
        if xlo && x.contains(v) { lemma_elems_ge_top(n0, na.lo, x, v); }
        if ylo && y.contains(v) { lemma_elems_ge_top(n0, nb.lo, y, v); }
        if xlo && ylo {
            lemma_prod_intro(n0, na.lo, nb.lo, s, x, y);
        } else if !xlo && ylo {
            assert(t =~= x.remove(v).union(y));
            lemma_prod_intro(n0, na.hi, nb.lo, t, x.remove(v), y);
        } else if xlo && !ylo {
            assert(t =~= x.union(y.remove(v)));
            lemma_prod_intro(n0, na.lo, nb.hi, t, x, y.remove(v));
        } else {
            assert(t =~= x.remove(v).union(y.remove(v)));
            lemma_prod_intro(n0, na.hi, nb.hi, t, x.remove(v), y.remove(v));
        }
    }
    if prod(n0, na.lo, nb.lo, s) {
        let (x, y) = choose|x: Set<u32>, y: Set<u32>| #![trigger mem(n0, na.lo, x), mem(n0, nb.lo, y)] mem(n0, na.lo, x) && mem(n0, nb.lo, y) && s =~= x.union(y);
        assert(mem(n0, a, x)); assert(mem(n0, b, y));
        lemma_prod_intro(n0, a, b, s, x, y);
    }
    if s.contains(v) && prod(n0, na.hi, nb.lo, t) {
        let (x1, y) = choose|x1: Set<u32>, y: Set<u32>| #![trigger mem(n0, na.hi, x1), mem(n0, nb.lo, y)] mem(n0, na.hi, x1) && mem(n0, nb.lo, y) && t =~= x1.union(y);
        if x1.contains(v) { lemma_elems_ge_top(n0, na.hi, x1, v); }
        let x = x1.insert(v);
        assert(x.remove(v) =~= x1); assert(mem(n0, a, x)); assert(mem(n0, b, y));
        assert(s =~= x.union(y));
        lemma_prod_intro(n0, a, b, s, x, y);
    }
    if s.contains(v) && prod(n0, na.lo, nb.hi, t) {
        let (x, y1) = choose|x: Set<u32>, y1: Set<u32>| #![trigger mem(n0, na.lo, x), mem(n0, nb.hi, y1)] mem(n0, na.lo, x) && mem(n0, nb.hi, y1) && t =~= x.union(y1);
        if y1.contains(v) { lemma_elems_ge_top(n0, nb.hi, y1, v); }
        let y = y1.insert(v);
        assert(y.remove(v) =~= y1); assert(mem(n0, a, x)); assert(mem(n0, b, y));
        assert(s =~= x.union(y));
        lemma_prod_intro(n0, a, b, s, x, y);
    }
    if s.contains(v) && prod(n0, na.hi, nb.hi, t) {
        let (x1, y1) = choose|x1: Set<u32>, y1: Set<u32>| #![trigger mem(n0, na.hi, x1), mem(n0, nb.hi, y1)] mem(n0, na.hi, x1) && mem(n0, nb.hi, y1) && t =~= x1.union(y1);
        if x1.contains(v) { lemma_elems_ge_top(n0, na.hi, x1, v); }
        if y1.contains(v) { lemma_elems_ge_top(n0, nb.hi, y1, v); }
        let x = x1.insert(v); let y = y1.insert(v);
        assert(x.remove(v) =~= x1); assert(y.remove(v) =~= y1); assert(mem(n0, a, x)); assert(mem(n0, b, y));
        assert(s =~= x.union(y));
        lemma_prod_intro(n0, a, b, s, x, y);
    }
}

// prod only depends on the denoted families, so it is stable under table growth
proof fn lemma_prod_frame(n1: Seq<ZddNode>, n2: Seq<ZddNode>, a: ZddRef, b: ZddRef, s: Set<u32>)
    requires frame(n1, n2), valid(a, n1.len() as int), valid(b, n1.len() as int),
    ensures prod(n2, a, b, s) == prod(n1, a, b, s),
{
    if prod(n1, a, b, s) {
        let (x, y) = choose|x: Set<u32>, y: Set<u32>| #![trigger mem(n1, a, x), mem(n1, b, y)] mem(n1, a, x) && mem(n1, b, y) && s =~= x.union(y);
        assert(mem(n2, a, x) == mem(n1, a, x)); assert(mem(n2, b, y) == mem(n1, b, y));
        lemma_prod_intro(n2, a, b, s, x, y);
    }
    if prod(n2, a, b, s) {
        let (x, y) = choose|x: Set<u32>, y: Set<u32>| #![trigger mem(n2, a, x), mem(n2, b, y)] mem(n2, a, x) && mem(n2, b, y) && s =~= x.union(y);
        assert(mem(n2, a, x) == mem(n1, a, x)); assert(mem(n2, b, y) == mem(n1, b, y));
        lemma_prod_intro(n1, a, b, s, x, y);
    }
}

spec fn pres_ok(nodes: Seq<ZddNode>, a: ZddRef, b: ZddRef, r: ZddRef) -> bool {
    &&& valid(a, nodes.len() as int) && valid(b, nodes.len() as int) && valid(r, nodes.len() as int)
    &&& top(nodes, r) >= imin(top(nodes, a), top(nodes, b))
    &&& forall|s: Set<u32>| #[trigger] mem(nodes, r, s) == prod(nodes, a, b, s)
}
#[verifier::opaque]
spec fn cache_ok_prod(c: Map<(ZddRef, ZddRef), ZddRef>, nodes: Seq<ZddNode>) -> bool {
    forall|a: ZddRef, b: ZddRef| #[trigger] c.contains_key((a, b)) ==> pres_ok(nodes, a, b, c[(a, b)])
}
proof fn lemma_cp_empty(nodes: Seq<ZddNode>) ensures cache_ok_prod(Map::<(ZddRef, ZddRef), ZddRef>::empty(), nodes) { reveal(cache_ok_prod); }
proof fn lemma_cp_get(c: Map<(ZddRef, ZddRef), ZddRef>, nodes: Seq<ZddNode>, a: ZddRef, b: ZddRef)
    requires cache_ok_prod(c, nodes), c.contains_key((a, b)),
    ensures pres_ok(nodes, a, b, c[(a, b)]),
{ reveal(cache_ok_prod); }
proof fn lemma_cp_insert(c: Map<(ZddRef, ZddRef), ZddRef>, nodes: Seq<ZddNode>, a: ZddRef, b: ZddRef, r: ZddRef)
    requires cache_ok_prod(c, nodes), pres_ok(nodes, a, b, r),
    ensures cache_ok_prod(c.insert((a, b), r), nodes),
{ reveal(cache_ok_prod); }
proof fn lemma_cp_frame(c: Map<(ZddRef, ZddRef), ZddRef>, n1: Seq<ZddNode>, n2: Seq<ZddNode>)
    requires cache_ok_prod(c, n1), frame(n1, n2),
    ensures cache_ok_prod(c, n2),
{
    reveal(cache_ok_prod);
    assert forall|a: ZddRef, b: ZddRef| #[trigger] c.contains_key((a, b)) implies pres_ok(n2, a, b, c[(a, b)]) by {
        let r = c[(a, b)];
        assert(pres_ok(n1, a, b, r));
        assert(top(n2, r) == top(n1, r)); assert(top(n2, a) == top(n1, a)); assert(top(n2, b) == top(n1, b));
        assert forall|s: Set<u32>| #[trigger] mem(n2, r, s) == prod(n2, a, b, s) by {
            assert(mem(n2, r, s) == mem(n1, r, s));
            lemma_prod_frame(n1, n2, a, b, s);
        }
    }
}

// product of two families living in two DIFFERENT tables (the public Zdd::product contract)
spec fn prod2(na: Seq<ZddNode>, ra: ZddRef, nb: Seq<ZddNode>, rb: ZddRef, s: Set<u32>) -> bool {
    exists|x: Set<u32>, y: Set<u32>| #![trigger mem(na, ra, x), mem(nb, rb, y)] mem(na, ra, x) && mem(nb, rb, y) && s =~= x.union(y)
}
proof fn lemma_prod_bridge(na: Seq<ZddNode>, ra: ZddRef, nb: Seq<ZddNode>, rb: ZddRef, n: Seq<ZddNode>, rb2: ZddRef, s: Set<u32>)
    requires forall|x: Set<u32>| #[trigger] mem(n, ra, x) == mem(na, ra, x), forall|y: Set<u32>| #[trigger] mem(n, rb2, y) == mem(nb, rb, y),
    ensures prod(n, ra, rb2, s) == prod2(na, ra, nb, rb, s),
{
    if prod(n, ra, rb2, s) {
        let (x, y) = choose|x: Set<u32>, y: Set<u32>| #![trigger mem(n, ra, x), mem(n, rb2, y)] mem(n, ra, x) && mem(n, rb2, y) && s =~= x.union(y);
        assert(mem(na, ra, x) && mem(nb, rb, y));
    }
    if prod2(na, ra, nb, rb, s) {
        let (x, y) = choose|x: Set<u32>, y: Set<u32>| #![trigger mem(na, ra, x), mem(nb, rb, y)] mem(na, ra, x) && mem(nb, rb, y) && s =~= x.union(y);
        assert(mem(n, ra, x) && mem(n, rb2, y));
        lemma_prod_intro(n, ra, rb2, s, x, y);
    }
}

// ============================================================================================
// Iteration (explicit-stack DFS).  Stack entries are (node, branch): 0 = unexplored, 1 = lo done, 2 = hi in progress.
// The current path is the sequence of variables of the branch-2 entries, bottom to top.
// ============================================================================================
spec fn it_prefix(stack: Seq<(ZddRef, u8)>, nodes: Seq<ZddNode>, k: int) -> Seq<u32>
    decreases k
{
    if k <= 0 { Seq::<u32>::empty() } else {
        let p = it_prefix(stack, nodes, k - 1);
        let e = stack[k - 1];
        if e.1 >= 2 && e.0 is Node { p.push(nodes[e.0->Node_0 as int].var) } else { p }
    }
}
spec fn it_entry_ok(stack: Seq<(ZddRef, u8)>, nodes: Seq<ZddNode>, root: ZddRef, k: int) -> bool {
    let n = stack[k].0; let br = stack[k].1; let p = it_prefix(stack, nodes, k);
    &&& valid(n, nodes.len() as int)
    &&& strictly_ascending(p)
    &&& forall|j: int| 0 <= j < p.len() ==> (#[trigger] p[j] as int) < top(nodes, n)
    &&& (br != 0 ==> n is Node)
    &&& br <= 2
    &&& (br == 0 ==> forall|s: Set<u32>| #[trigger] mem(nodes, n, s) ==> mem(nodes, root, p.to_set().union(s)))
    &&& (br == 1 ==> forall|s: Set<u32>| #[trigger] mem(nodes, nodes[n->Node_0 as int].hi, s)
                        ==> mem(nodes, root, p.to_set().insert(nodes[n->Node_0 as int].var).union(s)))
}
spec fn it_stack_ok(stack: Seq<(ZddRef, u8)>, path: Seq<u32>, nodes: Seq<ZddNode>, root: ZddRef) -> bool {
    &&& nodes_ok(nodes)
    &&& forall|k: int| 0 <= k < stack.len() ==> #[trigger] it_entry_ok(stack, nodes, root, k)
    &&& path == it_prefix(stack, nodes, stack.len() as int)
    &&& (stack.len() > 0 ==> stack[0].0 == root)
}

proof fn lemma_prefix_agree(s1: Seq<(ZddRef, u8)>, s2: Seq<(ZddRef, u8)>, nodes: Seq<ZddNode>, k: int)
    requires 0 <= k <= s1.len(), k <= s2.len(), forall|j: int| 0 <= j < k ==> s1[j] == s2[j],
    ensures it_prefix(s1, nodes, k) == it_prefix(s2, nodes, k),
    decreases k
{
    if k > 0 { lemma_prefix_agree(s1, s2, nodes, k - 1); }
}
proof fn lemma_entry_agree(s1: Seq<(ZddRef, u8)>, s2: Seq<(ZddRef, u8)>, nodes: Seq<ZddNode>, root: ZddRef, k: int)
    requires 0 <= k < s1.len(), k < s2.len(), forall|j: int| 0 <= j <= k ==> s1[j] == s2[j], it_entry_ok(s1, nodes, root, k),
    ensures it_entry_ok(s2, nodes, root, k),
{
    lemma_prefix_agree(s1, s2, nodes, k);
}
// all entries below the changed top keep their invariant
proof fn lemma_entries_below(s1: Seq<(ZddRef, u8)>, s2: Seq<(ZddRef, u8)>, nodes: Seq<ZddNode>, root: ZddRef, m: int)
    requires 0 <= m <= s1.len(), m <= s2.len(), forall|j: int| 0 <= j < m ==> s1[j] == s2[j],
        forall|k: int| 0 <= k < m ==> #[trigger] it_entry_ok(s1, nodes, root, k),
    ensures forall|k: int| 0 <= k < m ==> #[trigger] it_entry_ok(s2, nodes, root, k),
        it_prefix(s1, nodes, m) == it_prefix(s2, nodes, m),
{
    assert forall|k: int| 0 <= k < m implies #[trigger] it_entry_ok(s2, nodes, root, k) by { lemma_entry_agree(s1, s2, nodes, root, k); }
    lemma_prefix_agree(s1, s2, nodes, m);
}
proof fn lemma_to_set_push(p: Seq<u32>, v: u32)
    ensures p.push(v).to_set() =~= p.to_set().insert(v),
{
    assert forall|x: u32| p.push(v).to_set().contains(x) == p.to_set().insert(v).contains(x) by {
        if p.push(v).to_set().contains(x) {
            let i = choose|i: int| 0 <= i < p.push(v).len() && p.push(v)[i] == x;
            if i < p.len() { assert(p[i] == x); }
        }
        if p.to_set().contains(x) {
            let i = choose|i: int| 0 <= i < p.len() && p[i] == x;
            assert(p.push(v)[i] == x);
        }
        if x == v { assert(p.push(v)[p.len() as int] == v); }
    }
}
proof fn lemma_ascending_push(p: Seq<u32>, v: u32)
    requires strictly_ascending(p), forall|j: int| 0 <= j < p.len() ==> #[trigger] p[j] < v,
    ensures strictly_ascending(p.push(v)),
{ }

// ---- standalone iterator (iter.rs): every stack entry carries its own path, so the invariant is per entry ----
spec fn zit_entry_ok(n: ZddRef, path: Seq<u32>, br: u8, nodes: Seq<ZddNode>, root: ZddRef) -> bool {
    &&& valid(n, nodes.len() as int)
    &&& strictly_ascending(path)
    &&& forall|j: int| 0 <= j < path.len() ==> (#[trigger] path[j] as int) < top(nodes, n)
    &&& (br != 0 ==> n is Node)
    &&& (br == 0 ==> forall|s: Set<u32>| #[trigger] mem(nodes, n, s) ==> mem(nodes, root, path.to_set().union(s)))
    &&& (br == 1 ==> forall|s: Set<u32>| #[trigger] mem(nodes, nodes[n->Node_0 as int].hi, s)
                        ==> mem(nodes, root, path.to_set().insert(nodes[n->Node_0 as int].var).union(s)))
}
spec fn zit_ok(stack: Seq<(ZddRef, Vec<u32>, u8)>, nodes: Seq<ZddNode>, root: ZddRef) -> bool {
    forall|k: int| 0 <= k < stack.len() ==> zit_entry_ok(#[trigger] stack[k].0, stack[k].1@, stack[k].2, nodes, root)
}

spec fn zit_valid(stack: Seq<(ZddRef, Vec<u32>, u8)>, nodes: Seq<ZddNode>) -> bool {
    forall|k: int| 0 <= k < stack.len() ==> valid(#[trigger] stack[k].0, nodes.len() as int)
}

// building a chain for a strictly ascending vector, from the largest element down: after processing xs[i..] the
// current reference denotes exactly { set(xs[i..]) }
spec fn is_singleton_family(nodes: Seq<ZddNode>, r: ZddRef, xs: Seq<u32>, i: int) -> bool {
    forall|s: Set<u32>| #[trigger] mem(nodes, r, s) == (s =~= xs.subrange(i, xs.len() as int).to_set())
}
proof fn lemma_chain_step(xs: Seq<u32>, i: int, s: Set<u32>)
    requires strictly_ascending(xs), 0 < i <= xs.len(),
    ensures (s.contains(xs[i - 1]) && s.remove(xs[i - 1]) =~= xs.subrange(i, xs.len() as int).to_set())
             == (s =~= xs.subrange(i - 1, xs.len() as int).to_set()),
{
    let v = xs[i - 1];
    let tail = xs.subrange(i, xs.len() as int); let full = xs.subrange(i - 1, xs.len() as int);
    assert(full[0] == v);
    assert forall|x: u32| full.to_set().contains(x) == (x == v || tail.to_set().contains(x)) by {
        if full.to_set().contains(x) { let k = choose|k: int| 0 <= k < full.len() && full[k] == x; if k > 0 { assert(tail[k - 1] == x); } }
        if tail.to_set().contains(x) { let k = choose|k: int| 0 <= k < tail.len() && tail[k] == x; assert(full[k + 1] == x); }
    }
    assert(!tail.to_set().contains(v)) by {
        if tail.to_set().contains(v) { let k = choose|k: int| 0 <= k < tail.len() && tail[k] == v; assert(xs[i + k] == v); assert(xs[i - 1] < xs[i + k]); }
    }
    if s.contains(v) && s.remove(v) =~= tail.to_set() {
        assert forall|x: u32| s.contains(x) == full.to_set().contains(x) by { if x != v { assert(s.remove(v).contains(x) == s.contains(x)); } }
        assert(s =~= full.to_set());
    }
    if s =~= full.to_set() {
        assert(s.contains(v));
        assert forall|x: u32| s.remove(v).contains(x) == tail.to_set().contains(x) by { }
        assert(s.remove(v) =~= tail.to_set());
    }
}

// ============================================================================================
// count:  card(r) (what the code computes, structurally)  ==  the number of member sets of r
// ============================================================================================
spec fn fam(nodes: Seq<ZddNode>, r: ZddRef) -> Set<Set<u32>>
    decreases rank(r)
{
    match r {
        ZddRef::Empty => Set::<Set<u32>>::empty(),
        ZddRef::Base => Set::<Set<u32>>::empty().insert(Set::<u32>::empty()),
        ZddRef::Node(id) => {
            if (id as int) < nodes.len() && valid(nodes[id as int].lo, id as int) && valid(nodes[id as int].hi, id as int) {
                let v = nodes[id as int].var;
                fam(nodes, nodes[id as int].lo) + fam(nodes, nodes[id as int].hi).map(|t: Set<u32>| t.insert(v))
            } else { Set::<Set<u32>>::empty() }
        }
    }
}

proof fn lemma_fam_mem(nodes: Seq<ZddNode>, r: ZddRef, s: Set<u32>)
    requires nodes_ok(nodes), valid(r, nodes.len() as int),
    ensures fam(nodes, r).contains(s) == mem(nodes, r, s),
    decreases rank(r)
{
    match r {
        ZddRef::Node(id) => {
            let nd = nodes[id as int]; let v = nd.var;
            assert(node_ok(nodes, id as int));
            let f = |t: Set<u32>| t.insert(v);
            let mapped = fam(nodes, nd.hi).map(f);
            lemma_fam_mem(nodes, nd.lo, s);
            lemma_fam_mem(nodes, nd.hi, s.remove(v));
            if mapped.contains(s) {
                let t = choose|t: Set<u32>| fam(nodes, nd.hi).contains(t) && f(t) == s;
                lemma_fam_mem(nodes, nd.hi, t);
                if t.contains(v) { lemma_elems_ge_top(nodes, nd.hi, t, v); }
                assert(s.remove(v) =~= t);
            }
            if s.contains(v) && mem(nodes, nd.hi, s.remove(v)) {
                let t = s.remove(v);
                assert(fam(nodes, nd.hi).contains(t));
                assert(f(t) =~= s);
                assert(mapped.contains(s));
            }
        }
        ZddRef::Base => {
            if s =~= Set::<u32>::empty() { assert(s == Set::<u32>::empty()); }
        }
        _ => {}
    }
}

proof fn lemma_map_insert_len(b: Set<Set<u32>>, v: u32)
    requires forall|t: Set<u32>| b.contains(t) ==> !t.contains(v),
    ensures b.map(|t: Set<u32>| t.insert(v)).len() == b.len(),
    decreases b.len()
{
    let f = |t: Set<u32>| t.insert(v);
    if b.len() == 0 {
        assert(b =~= Set::<Set<u32>>::empty());
        assert(b.map(f) =~= Set::<Set<u32>>::empty());
    } else {
        let x = b.choose();
        let b1 = b.remove(x);
        lemma_map_insert_len(b1, v);
        assert(!b1.map(f).contains(f(x))) by {
            if b1.map(f).contains(f(x)) {
                let t = choose|t: Set<u32>| b1.contains(t) && f(t) == f(x);
                assert(t.insert(v).remove(v) =~= t); assert(x.insert(v).remove(v) =~= x);
                assert(t == x);
            }
        }
        assert(b.map(f) =~= b1.map(f).insert(f(x))) by {
            assert forall|y: Set<u32>| b.map(f).contains(y) == b1.map(f).insert(f(x)).contains(y) by {
                if b.map(f).contains(y) {
                    let t = choose|t: Set<u32>| b.contains(t) && f(t) == y;
                    if t != x { assert(b1.contains(t)); assert(b1.map(f).contains(y)); }
                }
                if b1.map(f).contains(y) {
                    let t = choose|t: Set<u32>| b1.contains(t) && f(t) == y;
                    assert(b.contains(t));
                }
                if y == f(x) { assert(b.contains(x)); }
            }
        }
    }
}

// the structural count equals the number of distinct member sets
proof fn lemma_card_is_cardinality(nodes: Seq<ZddNode>, r: ZddRef)
    requires nodes_ok(nodes), valid(r, nodes.len() as int),
    ensures fam(nodes, r).len() == card(nodes, r),
        forall|s: Set<u32>| fam(nodes, r).contains(s) == mem(nodes, r, s),
    decreases rank(r)
{
    assert forall|s: Set<u32>| fam(nodes, r).contains(s) == mem(nodes, r, s) by { lemma_fam_mem(nodes, r, s); }
    match r {
        ZddRef::Node(id) => {
            let nd = nodes[id as int]; let v = nd.var;
            assert(node_ok(nodes, id as int));
            let f = |t: Set<u32>| t.insert(v);
            let a = fam(nodes, nd.lo); let b = fam(nodes, nd.hi); let mapped = b.map(f);
            lemma_card_is_cardinality(nodes, nd.lo);
            lemma_card_is_cardinality(nodes, nd.hi);
            assert forall|t: Set<u32>| b.contains(t) implies !t.contains(v) by {
                lemma_fam_mem(nodes, nd.hi, t);
                if t.contains(v) { lemma_elems_ge_top(nodes, nd.hi, t, v); }
            }
            lemma_map_insert_len(b, v);
            assert(a.disjoint(mapped)) by {
                assert forall|s: Set<u32>| !(a.contains(s) && mapped.contains(s)) by {
                    if a.contains(s) && mapped.contains(s) {
                        lemma_fam_mem(nodes, nd.lo, s);
                        let t = choose|t: Set<u32>| b.contains(t) && f(t) == s;
                        assert(s.contains(v));
                        lemma_elems_ge_top(nodes, nd.lo, s, v);
                    }
                }
            }
            vstd::set_lib::lemma_set_disjoint_lens(a, mapped);
        }
        ZddRef::Base => {
            assert(fam(nodes, r).len() == 1);
        }
        ZddRef::Empty => {
            assert(fam(nodes, r).len() == 0);
        }
    }
}
