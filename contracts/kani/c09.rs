// C09 — a filter selects the same events in `.where` and in a pattern step (appended to engine/evaluator.rs;
// sase.rs' private compare_values and compiler.rs' expr_to_sase_predicate are reached through cfg(kani|vpv_replay) shims).
// Contract per cell:  compare_values(l, r, op)  ==  where_truth(Binary{op, lit(l), lit(r)})
// where where_truth(e) = eval(e).and_then(as_bool).unwrap_or(false) is exactly what the `.where` operator computes.
use varpulis_core::ast::{BinOp, Expr};
use crate::sase::{CompareOp, Predicate, __vpv_compare_values};
use crate::engine::compiler::expr_to_sase_predicate;

pub fn where_truth(e: &Expr) -> bool {
    let evt = Event::new_at("E", chrono::DateTime::<chrono::Utc>::UNIX_EPOCH);
    let ctx = SequenceContext::default();
    let fns: FxHashMap<String, UserFunction> = FxHashMap::default();
    let binds: FxHashMap<String, Value> = FxHashMap::default();
    let r = eval_expr_with_functions(e, &evt, &ctx, &fns, &binds);
    let t = r.as_ref().and_then(|v| v.as_bool()).unwrap_or(false);
    std::mem::forget(r);
    t
}
pub fn ops(op: u8) -> (BinOp, CompareOp) {
    match op { 0 => (BinOp::Eq, CompareOp::Eq), 1 => (BinOp::NotEq, CompareOp::NotEq), 2 => (BinOp::Lt, CompareOp::Lt),
               3 => (BinOp::Le, CompareOp::Le), 4 => (BinOp::Gt, CompareOp::Gt), _ => (BinOp::Ge, CompareOp::Ge) }
}
pub fn agree(op: u8, l: Expr, r: Expr) -> bool {
    let (b, c) = ops(op);
    let (lv, rv) = (lit_value(&l), lit_value(&r));
    let step = __vpv_compare_values(&lv, &rv, c);
    let e = Expr::Binary { op: b, left: Box::new(l), right: Box::new(r) };
    let wh = where_truth(&e);
    std::mem::forget(e); std::mem::forget(lv); std::mem::forget(rv);
    step == wh
}
pub fn lit_value(e: &Expr) -> Value {
    match e { Expr::Int(n) => Value::Int(*n), Expr::Float(f) => Value::Float(*f), Expr::Bool(b) => Value::Bool(*b),
              Expr::Str(s) => Value::Str(s.clone().into()), _ => Value::Null }
}
pub fn ascii1(c: u8) -> String { ((c & 0x7f) as char).to_string() }

#[cfg(kani)] pub fn stub_eval_filter_expr(_e: &Expr, _ev: &Event, _c: &SequenceContext) -> Option<Value> { None }
#[cfg(kani)] pub fn stub_collect_emitted_event(_e: Event) {}
#[cfg(kani)] pub fn stub_call_user_function(_f: &UserFunction, _a: &[Value], _e: &Event, _c: &SequenceContext, _fs: &FxHashMap<String, UserFunction>) -> Option<Value> { None }

vpv_cell!(#[kani::stub(eval_filter_expr, stub_eval_filter_expr)] #[kani::stub(collect_emitted_event, stub_collect_emitted_event)] #[kani::stub(call_user_function, stub_call_user_function)] c09_eq_int_int, "C09/Eq/Int-Int", (a: i64, b: i64), { agree(0, Expr::Int(a), Expr::Int(b)) });
vpv_cell!(#[kani::stub(eval_filter_expr, stub_eval_filter_expr)] #[kani::stub(collect_emitted_event, stub_collect_emitted_event)] #[kani::stub(call_user_function, stub_call_user_function)] c09_eq_int_float, "C09/Eq/Int-Float", (a: i64, b: f64), { agree(0, Expr::Int(a), Expr::Float(b)) });
vpv_cell!(#[kani::stub(eval_filter_expr, stub_eval_filter_expr)] #[kani::stub(collect_emitted_event, stub_collect_emitted_event)] #[kani::stub(call_user_function, stub_call_user_function)] c09_eq_float_int, "C09/Eq/Float-Int", (a: f64, b: i64), { agree(0, Expr::Float(a), Expr::Int(b)) });
vpv_cell!(#[kani::stub(eval_filter_expr, stub_eval_filter_expr)] #[kani::stub(collect_emitted_event, stub_collect_emitted_event)] #[kani::stub(call_user_function, stub_call_user_function)] c09_eq_float_float, "C09/Eq/Float-Float", (a: f64, b: f64), { agree(0, Expr::Float(a), Expr::Float(b)) });
vpv_cell!(#[kani::stub(eval_filter_expr, stub_eval_filter_expr)] #[kani::stub(collect_emitted_event, stub_collect_emitted_event)] #[kani::stub(call_user_function, stub_call_user_function)] #[kani::unwind(6)] c09_eq_str_str, "C09/Eq/Str-Str", (a: u8, b: u8), { agree(0, Expr::Str(ascii1(a)), Expr::Str(ascii1(b))) });
vpv_cell!(#[kani::stub(eval_filter_expr, stub_eval_filter_expr)] #[kani::stub(collect_emitted_event, stub_collect_emitted_event)] #[kani::stub(call_user_function, stub_call_user_function)] c09_eq_bool_bool, "C09/Eq/Bool-Bool", (a: bool, b: bool), { agree(0, Expr::Bool(a), Expr::Bool(b)) });
vpv_cell!(#[kani::stub(eval_filter_expr, stub_eval_filter_expr)] #[kani::stub(collect_emitted_event, stub_collect_emitted_event)] #[kani::stub(call_user_function, stub_call_user_function)] #[kani::unwind(6)] c09_eq_mismatched_kinds, "C09/Eq/operands of different kinds (12 kind pairs: Int/Float/Bool/Str/Null mixed)", (i: i64, f: f64, b: bool, c: u8), {
    let mut ok = true;
    ok = ok && agree(0, Expr::Int(i), Expr::Str(ascii1(c)));   // Int-Str
    ok = ok && agree(0, Expr::Str(ascii1(c)), Expr::Int(i));   // Str-Int
    ok = ok && agree(0, Expr::Bool(b), Expr::Int(i));   // Bool-Int
    ok = ok && agree(0, Expr::Int(i), Expr::Bool(b));   // Int-Bool
    ok = ok && agree(0, Expr::Null, Expr::Int(i));   // Null-Int
    ok = ok && agree(0, Expr::Int(i), Expr::Null);   // Int-Null
    ok = ok && agree(0, Expr::Float(f), Expr::Str(ascii1(c)));   // Float-Str
    ok = ok && agree(0, Expr::Str(ascii1(c)), Expr::Bool(b));   // Str-Bool
    ok = ok && agree(0, Expr::Float(f), Expr::Bool(b));   // Float-Bool
    ok = ok && agree(0, Expr::Bool(b), Expr::Float(f));   // Bool-Float
    ok = ok && agree(0, Expr::Null, Expr::Float(f));   // Null-Float
    ok = ok && agree(0, Expr::Float(f), Expr::Null);   // Float-Null
    ok });
vpv_cell!(#[kani::stub(eval_filter_expr, stub_eval_filter_expr)] #[kani::stub(collect_emitted_event, stub_collect_emitted_event)] #[kani::stub(call_user_function, stub_call_user_function)] c09_noteq_int_int, "C09/NotEq/Int-Int", (a: i64, b: i64), { agree(1, Expr::Int(a), Expr::Int(b)) });
vpv_cell!(#[kani::stub(eval_filter_expr, stub_eval_filter_expr)] #[kani::stub(collect_emitted_event, stub_collect_emitted_event)] #[kani::stub(call_user_function, stub_call_user_function)] c09_noteq_int_float, "C09/NotEq/Int-Float", (a: i64, b: f64), { agree(1, Expr::Int(a), Expr::Float(b)) });
vpv_cell!(#[kani::stub(eval_filter_expr, stub_eval_filter_expr)] #[kani::stub(collect_emitted_event, stub_collect_emitted_event)] #[kani::stub(call_user_function, stub_call_user_function)] c09_noteq_float_int, "C09/NotEq/Float-Int", (a: f64, b: i64), { agree(1, Expr::Float(a), Expr::Int(b)) });
vpv_cell!(#[kani::stub(eval_filter_expr, stub_eval_filter_expr)] #[kani::stub(collect_emitted_event, stub_collect_emitted_event)] #[kani::stub(call_user_function, stub_call_user_function)] c09_noteq_float_float, "C09/NotEq/Float-Float", (a: f64, b: f64), { agree(1, Expr::Float(a), Expr::Float(b)) });
vpv_cell!(#[kani::stub(eval_filter_expr, stub_eval_filter_expr)] #[kani::stub(collect_emitted_event, stub_collect_emitted_event)] #[kani::stub(call_user_function, stub_call_user_function)] #[kani::unwind(6)] c09_noteq_str_str, "C09/NotEq/Str-Str", (a: u8, b: u8), { agree(1, Expr::Str(ascii1(a)), Expr::Str(ascii1(b))) });
vpv_cell!(#[kani::stub(eval_filter_expr, stub_eval_filter_expr)] #[kani::stub(collect_emitted_event, stub_collect_emitted_event)] #[kani::stub(call_user_function, stub_call_user_function)] c09_noteq_bool_bool, "C09/NotEq/Bool-Bool", (a: bool, b: bool), { agree(1, Expr::Bool(a), Expr::Bool(b)) });
vpv_cell!(#[kani::stub(eval_filter_expr, stub_eval_filter_expr)] #[kani::stub(collect_emitted_event, stub_collect_emitted_event)] #[kani::stub(call_user_function, stub_call_user_function)] #[kani::unwind(6)] c09_noteq_mismatched_kinds, "C09/NotEq/operands of different kinds (12 kind pairs: Int/Float/Bool/Str/Null mixed)", (i: i64, f: f64, b: bool, c: u8), {
    let mut ok = true;
    ok = ok && agree(1, Expr::Int(i), Expr::Str(ascii1(c)));   // Int-Str
    ok = ok && agree(1, Expr::Str(ascii1(c)), Expr::Int(i));   // Str-Int
    ok = ok && agree(1, Expr::Bool(b), Expr::Int(i));   // Bool-Int
    ok = ok && agree(1, Expr::Int(i), Expr::Bool(b));   // Int-Bool
    ok = ok && agree(1, Expr::Null, Expr::Int(i));   // Null-Int
    ok = ok && agree(1, Expr::Int(i), Expr::Null);   // Int-Null
    ok = ok && agree(1, Expr::Float(f), Expr::Str(ascii1(c)));   // Float-Str
    ok = ok && agree(1, Expr::Str(ascii1(c)), Expr::Bool(b));   // Str-Bool
    ok = ok && agree(1, Expr::Float(f), Expr::Bool(b));   // Float-Bool
    ok = ok && agree(1, Expr::Bool(b), Expr::Float(f));   // Bool-Float
    ok = ok && agree(1, Expr::Null, Expr::Float(f));   // Null-Float
    ok = ok && agree(1, Expr::Float(f), Expr::Null);   // Float-Null
    ok });
vpv_cell!(#[kani::stub(eval_filter_expr, stub_eval_filter_expr)] #[kani::stub(collect_emitted_event, stub_collect_emitted_event)] #[kani::stub(call_user_function, stub_call_user_function)] c09_lt_int_int, "C09/Lt/Int-Int", (a: i64, b: i64), { agree(2, Expr::Int(a), Expr::Int(b)) });
vpv_cell!(#[kani::stub(eval_filter_expr, stub_eval_filter_expr)] #[kani::stub(collect_emitted_event, stub_collect_emitted_event)] #[kani::stub(call_user_function, stub_call_user_function)] c09_lt_int_float, "C09/Lt/Int-Float", (a: i64, b: f64), { agree(2, Expr::Int(a), Expr::Float(b)) });
vpv_cell!(#[kani::stub(eval_filter_expr, stub_eval_filter_expr)] #[kani::stub(collect_emitted_event, stub_collect_emitted_event)] #[kani::stub(call_user_function, stub_call_user_function)] c09_lt_float_int, "C09/Lt/Float-Int", (a: f64, b: i64), { agree(2, Expr::Float(a), Expr::Int(b)) });
vpv_cell!(#[kani::stub(eval_filter_expr, stub_eval_filter_expr)] #[kani::stub(collect_emitted_event, stub_collect_emitted_event)] #[kani::stub(call_user_function, stub_call_user_function)] c09_lt_float_float, "C09/Lt/Float-Float", (a: f64, b: f64), { agree(2, Expr::Float(a), Expr::Float(b)) });
vpv_cell!(#[kani::stub(eval_filter_expr, stub_eval_filter_expr)] #[kani::stub(collect_emitted_event, stub_collect_emitted_event)] #[kani::stub(call_user_function, stub_call_user_function)] #[kani::unwind(6)] c09_lt_str_str, "C09/Lt/Str-Str", (a: u8, b: u8), { agree(2, Expr::Str(ascii1(a)), Expr::Str(ascii1(b))) });
vpv_cell!(#[kani::stub(eval_filter_expr, stub_eval_filter_expr)] #[kani::stub(collect_emitted_event, stub_collect_emitted_event)] #[kani::stub(call_user_function, stub_call_user_function)] c09_lt_bool_bool, "C09/Lt/Bool-Bool", (a: bool, b: bool), { agree(2, Expr::Bool(a), Expr::Bool(b)) });
vpv_cell!(#[kani::stub(eval_filter_expr, stub_eval_filter_expr)] #[kani::stub(collect_emitted_event, stub_collect_emitted_event)] #[kani::stub(call_user_function, stub_call_user_function)] #[kani::unwind(6)] c09_lt_mismatched_kinds, "C09/Lt/operands of different kinds (12 kind pairs: Int/Float/Bool/Str/Null mixed)", (i: i64, f: f64, b: bool, c: u8), {
    let mut ok = true;
    ok = ok && agree(2, Expr::Int(i), Expr::Str(ascii1(c)));   // Int-Str
    ok = ok && agree(2, Expr::Str(ascii1(c)), Expr::Int(i));   // Str-Int
    ok = ok && agree(2, Expr::Bool(b), Expr::Int(i));   // Bool-Int
    ok = ok && agree(2, Expr::Int(i), Expr::Bool(b));   // Int-Bool
    ok = ok && agree(2, Expr::Null, Expr::Int(i));   // Null-Int
    ok = ok && agree(2, Expr::Int(i), Expr::Null);   // Int-Null
    ok = ok && agree(2, Expr::Float(f), Expr::Str(ascii1(c)));   // Float-Str
    ok = ok && agree(2, Expr::Str(ascii1(c)), Expr::Bool(b));   // Str-Bool
    ok = ok && agree(2, Expr::Float(f), Expr::Bool(b));   // Float-Bool
    ok = ok && agree(2, Expr::Bool(b), Expr::Float(f));   // Bool-Float
    ok = ok && agree(2, Expr::Null, Expr::Float(f));   // Null-Float
    ok = ok && agree(2, Expr::Float(f), Expr::Null);   // Float-Null
    ok });
vpv_cell!(#[kani::stub(eval_filter_expr, stub_eval_filter_expr)] #[kani::stub(collect_emitted_event, stub_collect_emitted_event)] #[kani::stub(call_user_function, stub_call_user_function)] c09_le_int_int, "C09/Le/Int-Int", (a: i64, b: i64), { agree(3, Expr::Int(a), Expr::Int(b)) });
vpv_cell!(#[kani::stub(eval_filter_expr, stub_eval_filter_expr)] #[kani::stub(collect_emitted_event, stub_collect_emitted_event)] #[kani::stub(call_user_function, stub_call_user_function)] c09_le_int_float, "C09/Le/Int-Float", (a: i64, b: f64), { agree(3, Expr::Int(a), Expr::Float(b)) });
vpv_cell!(#[kani::stub(eval_filter_expr, stub_eval_filter_expr)] #[kani::stub(collect_emitted_event, stub_collect_emitted_event)] #[kani::stub(call_user_function, stub_call_user_function)] c09_le_float_int, "C09/Le/Float-Int", (a: f64, b: i64), { agree(3, Expr::Float(a), Expr::Int(b)) });
vpv_cell!(#[kani::stub(eval_filter_expr, stub_eval_filter_expr)] #[kani::stub(collect_emitted_event, stub_collect_emitted_event)] #[kani::stub(call_user_function, stub_call_user_function)] c09_le_float_float, "C09/Le/Float-Float", (a: f64, b: f64), { agree(3, Expr::Float(a), Expr::Float(b)) });
vpv_cell!(#[kani::stub(eval_filter_expr, stub_eval_filter_expr)] #[kani::stub(collect_emitted_event, stub_collect_emitted_event)] #[kani::stub(call_user_function, stub_call_user_function)] #[kani::unwind(6)] c09_le_str_str, "C09/Le/Str-Str", (a: u8, b: u8), { agree(3, Expr::Str(ascii1(a)), Expr::Str(ascii1(b))) });
vpv_cell!(#[kani::stub(eval_filter_expr, stub_eval_filter_expr)] #[kani::stub(collect_emitted_event, stub_collect_emitted_event)] #[kani::stub(call_user_function, stub_call_user_function)] c09_le_bool_bool, "C09/Le/Bool-Bool", (a: bool, b: bool), { agree(3, Expr::Bool(a), Expr::Bool(b)) });
vpv_cell!(#[kani::stub(eval_filter_expr, stub_eval_filter_expr)] #[kani::stub(collect_emitted_event, stub_collect_emitted_event)] #[kani::stub(call_user_function, stub_call_user_function)] #[kani::unwind(6)] c09_le_mismatched_kinds, "C09/Le/operands of different kinds (12 kind pairs: Int/Float/Bool/Str/Null mixed)", (i: i64, f: f64, b: bool, c: u8), {
    let mut ok = true;
    ok = ok && agree(3, Expr::Int(i), Expr::Str(ascii1(c)));   // Int-Str
    ok = ok && agree(3, Expr::Str(ascii1(c)), Expr::Int(i));   // Str-Int
    ok = ok && agree(3, Expr::Bool(b), Expr::Int(i));   // Bool-Int
    ok = ok && agree(3, Expr::Int(i), Expr::Bool(b));   // Int-Bool
    ok = ok && agree(3, Expr::Null, Expr::Int(i));   // Null-Int
    ok = ok && agree(3, Expr::Int(i), Expr::Null);   // Int-Null
    ok = ok && agree(3, Expr::Float(f), Expr::Str(ascii1(c)));   // Float-Str
    ok = ok && agree(3, Expr::Str(ascii1(c)), Expr::Bool(b));   // Str-Bool
    ok = ok && agree(3, Expr::Float(f), Expr::Bool(b));   // Float-Bool
    ok = ok && agree(3, Expr::Bool(b), Expr::Float(f));   // Bool-Float
    ok = ok && agree(3, Expr::Null, Expr::Float(f));   // Null-Float
    ok = ok && agree(3, Expr::Float(f), Expr::Null);   // Float-Null
    ok });
vpv_cell!(#[kani::stub(eval_filter_expr, stub_eval_filter_expr)] #[kani::stub(collect_emitted_event, stub_collect_emitted_event)] #[kani::stub(call_user_function, stub_call_user_function)] c09_gt_int_int, "C09/Gt/Int-Int", (a: i64, b: i64), { agree(4, Expr::Int(a), Expr::Int(b)) });
vpv_cell!(#[kani::stub(eval_filter_expr, stub_eval_filter_expr)] #[kani::stub(collect_emitted_event, stub_collect_emitted_event)] #[kani::stub(call_user_function, stub_call_user_function)] c09_gt_int_float, "C09/Gt/Int-Float", (a: i64, b: f64), { agree(4, Expr::Int(a), Expr::Float(b)) });
vpv_cell!(#[kani::stub(eval_filter_expr, stub_eval_filter_expr)] #[kani::stub(collect_emitted_event, stub_collect_emitted_event)] #[kani::stub(call_user_function, stub_call_user_function)] c09_gt_float_int, "C09/Gt/Float-Int", (a: f64, b: i64), { agree(4, Expr::Float(a), Expr::Int(b)) });
vpv_cell!(#[kani::stub(eval_filter_expr, stub_eval_filter_expr)] #[kani::stub(collect_emitted_event, stub_collect_emitted_event)] #[kani::stub(call_user_function, stub_call_user_function)] c09_gt_float_float, "C09/Gt/Float-Float", (a: f64, b: f64), { agree(4, Expr::Float(a), Expr::Float(b)) });
vpv_cell!(#[kani::stub(eval_filter_expr, stub_eval_filter_expr)] #[kani::stub(collect_emitted_event, stub_collect_emitted_event)] #[kani::stub(call_user_function, stub_call_user_function)] #[kani::unwind(6)] c09_gt_str_str, "C09/Gt/Str-Str", (a: u8, b: u8), { agree(4, Expr::Str(ascii1(a)), Expr::Str(ascii1(b))) });
vpv_cell!(#[kani::stub(eval_filter_expr, stub_eval_filter_expr)] #[kani::stub(collect_emitted_event, stub_collect_emitted_event)] #[kani::stub(call_user_function, stub_call_user_function)] c09_gt_bool_bool, "C09/Gt/Bool-Bool", (a: bool, b: bool), { agree(4, Expr::Bool(a), Expr::Bool(b)) });
vpv_cell!(#[kani::stub(eval_filter_expr, stub_eval_filter_expr)] #[kani::stub(collect_emitted_event, stub_collect_emitted_event)] #[kani::stub(call_user_function, stub_call_user_function)] #[kani::unwind(6)] c09_gt_mismatched_kinds, "C09/Gt/operands of different kinds (12 kind pairs: Int/Float/Bool/Str/Null mixed)", (i: i64, f: f64, b: bool, c: u8), {
    let mut ok = true;
    ok = ok && agree(4, Expr::Int(i), Expr::Str(ascii1(c)));   // Int-Str
    ok = ok && agree(4, Expr::Str(ascii1(c)), Expr::Int(i));   // Str-Int
    ok = ok && agree(4, Expr::Bool(b), Expr::Int(i));   // Bool-Int
    ok = ok && agree(4, Expr::Int(i), Expr::Bool(b));   // Int-Bool
    ok = ok && agree(4, Expr::Null, Expr::Int(i));   // Null-Int
    ok = ok && agree(4, Expr::Int(i), Expr::Null);   // Int-Null
    ok = ok && agree(4, Expr::Float(f), Expr::Str(ascii1(c)));   // Float-Str
    ok = ok && agree(4, Expr::Str(ascii1(c)), Expr::Bool(b));   // Str-Bool
    ok = ok && agree(4, Expr::Float(f), Expr::Bool(b));   // Float-Bool
    ok = ok && agree(4, Expr::Bool(b), Expr::Float(f));   // Bool-Float
    ok = ok && agree(4, Expr::Null, Expr::Float(f));   // Null-Float
    ok = ok && agree(4, Expr::Float(f), Expr::Null);   // Float-Null
    ok });
vpv_cell!(#[kani::stub(eval_filter_expr, stub_eval_filter_expr)] #[kani::stub(collect_emitted_event, stub_collect_emitted_event)] #[kani::stub(call_user_function, stub_call_user_function)] c09_ge_int_int, "C09/Ge/Int-Int", (a: i64, b: i64), { agree(5, Expr::Int(a), Expr::Int(b)) });
vpv_cell!(#[kani::stub(eval_filter_expr, stub_eval_filter_expr)] #[kani::stub(collect_emitted_event, stub_collect_emitted_event)] #[kani::stub(call_user_function, stub_call_user_function)] c09_ge_int_float, "C09/Ge/Int-Float", (a: i64, b: f64), { agree(5, Expr::Int(a), Expr::Float(b)) });
vpv_cell!(#[kani::stub(eval_filter_expr, stub_eval_filter_expr)] #[kani::stub(collect_emitted_event, stub_collect_emitted_event)] #[kani::stub(call_user_function, stub_call_user_function)] c09_ge_float_int, "C09/Ge/Float-Int", (a: f64, b: i64), { agree(5, Expr::Float(a), Expr::Int(b)) });
vpv_cell!(#[kani::stub(eval_filter_expr, stub_eval_filter_expr)] #[kani::stub(collect_emitted_event, stub_collect_emitted_event)] #[kani::stub(call_user_function, stub_call_user_function)] c09_ge_float_float, "C09/Ge/Float-Float", (a: f64, b: f64), { agree(5, Expr::Float(a), Expr::Float(b)) });
vpv_cell!(#[kani::stub(eval_filter_expr, stub_eval_filter_expr)] #[kani::stub(collect_emitted_event, stub_collect_emitted_event)] #[kani::stub(call_user_function, stub_call_user_function)] #[kani::unwind(6)] c09_ge_str_str, "C09/Ge/Str-Str", (a: u8, b: u8), { agree(5, Expr::Str(ascii1(a)), Expr::Str(ascii1(b))) });
vpv_cell!(#[kani::stub(eval_filter_expr, stub_eval_filter_expr)] #[kani::stub(collect_emitted_event, stub_collect_emitted_event)] #[kani::stub(call_user_function, stub_call_user_function)] c09_ge_bool_bool, "C09/Ge/Bool-Bool", (a: bool, b: bool), { agree(5, Expr::Bool(a), Expr::Bool(b)) });
vpv_cell!(#[kani::stub(eval_filter_expr, stub_eval_filter_expr)] #[kani::stub(collect_emitted_event, stub_collect_emitted_event)] #[kani::stub(call_user_function, stub_call_user_function)] #[kani::unwind(6)] c09_ge_mismatched_kinds, "C09/Ge/operands of different kinds (12 kind pairs: Int/Float/Bool/Str/Null mixed)", (i: i64, f: f64, b: bool, c: u8), {
    let mut ok = true;
    ok = ok && agree(5, Expr::Int(i), Expr::Str(ascii1(c)));   // Int-Str
    ok = ok && agree(5, Expr::Str(ascii1(c)), Expr::Int(i));   // Str-Int
    ok = ok && agree(5, Expr::Bool(b), Expr::Int(i));   // Bool-Int
    ok = ok && agree(5, Expr::Int(i), Expr::Bool(b));   // Int-Bool
    ok = ok && agree(5, Expr::Null, Expr::Int(i));   // Null-Int
    ok = ok && agree(5, Expr::Int(i), Expr::Null);   // Int-Null
    ok = ok && agree(5, Expr::Float(f), Expr::Str(ascii1(c)));   // Float-Str
    ok = ok && agree(5, Expr::Str(ascii1(c)), Expr::Bool(b));   // Str-Bool
    ok = ok && agree(5, Expr::Float(f), Expr::Bool(b));   // Float-Bool
    ok = ok && agree(5, Expr::Bool(b), Expr::Float(f));   // Bool-Float
    ok = ok && agree(5, Expr::Null, Expr::Float(f));   // Null-Float
    ok = ok && agree(5, Expr::Float(f), Expr::Null);   // Float-Null
    ok });
vpv_cell!(#[kani::unwind(6)] c09_pred_eq, "C09/expr_to_sase_predicate/Eq/field-op-literal", (v: i64), {
    let (b, c) = ops(0);
    let e = Expr::Binary { op: b, left: Box::new(Expr::Ident(String::from("f"))), right: Box::new(Expr::Int(v)) };
    let p = expr_to_sase_predicate(&e);
    let ok = match &p { Some(Predicate::Compare { field, op, value }) => field.as_str() == "f" && *op == c && matches!(value, Value::Int(x) if *x == v), _ => false };
    std::mem::forget(p); std::mem::forget(e);
    ok });
vpv_cell!(#[kani::unwind(6)] c09_pred_noteq, "C09/expr_to_sase_predicate/NotEq/field-op-literal", (v: i64), {
    let (b, c) = ops(1);
    let e = Expr::Binary { op: b, left: Box::new(Expr::Ident(String::from("f"))), right: Box::new(Expr::Int(v)) };
    let p = expr_to_sase_predicate(&e);
    let ok = match &p { Some(Predicate::Compare { field, op, value }) => field.as_str() == "f" && *op == c && matches!(value, Value::Int(x) if *x == v), _ => false };
    std::mem::forget(p); std::mem::forget(e);
    ok });
vpv_cell!(#[kani::unwind(6)] c09_pred_lt, "C09/expr_to_sase_predicate/Lt/field-op-literal", (v: i64), {
    let (b, c) = ops(2);
    let e = Expr::Binary { op: b, left: Box::new(Expr::Ident(String::from("f"))), right: Box::new(Expr::Int(v)) };
    let p = expr_to_sase_predicate(&e);
    let ok = match &p { Some(Predicate::Compare { field, op, value }) => field.as_str() == "f" && *op == c && matches!(value, Value::Int(x) if *x == v), _ => false };
    std::mem::forget(p); std::mem::forget(e);
    ok });
vpv_cell!(#[kani::unwind(6)] c09_pred_le, "C09/expr_to_sase_predicate/Le/field-op-literal", (v: i64), {
    let (b, c) = ops(3);
    let e = Expr::Binary { op: b, left: Box::new(Expr::Ident(String::from("f"))), right: Box::new(Expr::Int(v)) };
    let p = expr_to_sase_predicate(&e);
    let ok = match &p { Some(Predicate::Compare { field, op, value }) => field.as_str() == "f" && *op == c && matches!(value, Value::Int(x) if *x == v), _ => false };
    std::mem::forget(p); std::mem::forget(e);
    ok });
vpv_cell!(#[kani::unwind(6)] c09_pred_gt, "C09/expr_to_sase_predicate/Gt/field-op-literal", (v: i64), {
    let (b, c) = ops(4);
    let e = Expr::Binary { op: b, left: Box::new(Expr::Ident(String::from("f"))), right: Box::new(Expr::Int(v)) };
    let p = expr_to_sase_predicate(&e);
    let ok = match &p { Some(Predicate::Compare { field, op, value }) => field.as_str() == "f" && *op == c && matches!(value, Value::Int(x) if *x == v), _ => false };
    std::mem::forget(p); std::mem::forget(e);
    ok });
vpv_cell!(#[kani::unwind(6)] c09_pred_ge, "C09/expr_to_sase_predicate/Ge/field-op-literal", (v: i64), {
    let (b, c) = ops(5);
    let e = Expr::Binary { op: b, left: Box::new(Expr::Ident(String::from("f"))), right: Box::new(Expr::Int(v)) };
    let p = expr_to_sase_predicate(&e);
    let ok = match &p { Some(Predicate::Compare { field, op, value }) => field.as_str() == "f" && *op == c && matches!(value, Value::Int(x) if *x == v), _ => false };
    std::mem::forget(p); std::mem::forget(e);
    ok });
vpv_cell!(#[kani::unwind(6)] c09_pred_literal_left_eq, "C09/expr_to_sase_predicate/Eq/literal-op-field is either left to the expression evaluator or mirrored correctly", (v: i64), {
    let (b, _c) = ops(0);
    let e = Expr::Binary { op: b, left: Box::new(Expr::Int(v)), right: Box::new(Expr::Ident(String::from("f"))) };
    let p = expr_to_sase_predicate(&e);
    let ok = match &p {
        Some(Predicate::Expr(_)) => true,
        Some(Predicate::Compare { field, op, value }) => field.as_str() == "f" && *op == CompareOp::Eq && matches!(value, Value::Int(x) if *x == v),
        _ => false };
    std::mem::forget(p); std::mem::forget(e);
    ok });
vpv_cell!(#[kani::unwind(6)] c09_pred_literal_left_noteq, "C09/expr_to_sase_predicate/NotEq/literal-op-field is either left to the expression evaluator or mirrored correctly", (v: i64), {
    let (b, _c) = ops(1);
    let e = Expr::Binary { op: b, left: Box::new(Expr::Int(v)), right: Box::new(Expr::Ident(String::from("f"))) };
    let p = expr_to_sase_predicate(&e);
    let ok = match &p {
        Some(Predicate::Expr(_)) => true,
        Some(Predicate::Compare { field, op, value }) => field.as_str() == "f" && *op == CompareOp::NotEq && matches!(value, Value::Int(x) if *x == v),
        _ => false };
    std::mem::forget(p); std::mem::forget(e);
    ok });
vpv_cell!(#[kani::unwind(6)] c09_pred_literal_left_lt, "C09/expr_to_sase_predicate/Lt/literal-op-field is either left to the expression evaluator or mirrored correctly", (v: i64), {
    let (b, _c) = ops(2);
    let e = Expr::Binary { op: b, left: Box::new(Expr::Int(v)), right: Box::new(Expr::Ident(String::from("f"))) };
    let p = expr_to_sase_predicate(&e);
    let ok = match &p {
        Some(Predicate::Expr(_)) => true,
        Some(Predicate::Compare { field, op, value }) => field.as_str() == "f" && *op == CompareOp::Gt && matches!(value, Value::Int(x) if *x == v),
        _ => false };
    std::mem::forget(p); std::mem::forget(e);
    ok });
vpv_cell!(#[kani::unwind(6)] c09_pred_literal_left_le, "C09/expr_to_sase_predicate/Le/literal-op-field is either left to the expression evaluator or mirrored correctly", (v: i64), {
    let (b, _c) = ops(3);
    let e = Expr::Binary { op: b, left: Box::new(Expr::Int(v)), right: Box::new(Expr::Ident(String::from("f"))) };
    let p = expr_to_sase_predicate(&e);
    let ok = match &p {
        Some(Predicate::Expr(_)) => true,
        Some(Predicate::Compare { field, op, value }) => field.as_str() == "f" && *op == CompareOp::Ge && matches!(value, Value::Int(x) if *x == v),
        _ => false };
    std::mem::forget(p); std::mem::forget(e);
    ok });
vpv_cell!(#[kani::unwind(6)] c09_pred_literal_left_gt, "C09/expr_to_sase_predicate/Gt/literal-op-field is either left to the expression evaluator or mirrored correctly", (v: i64), {
    let (b, _c) = ops(4);
    let e = Expr::Binary { op: b, left: Box::new(Expr::Int(v)), right: Box::new(Expr::Ident(String::from("f"))) };
    let p = expr_to_sase_predicate(&e);
    let ok = match &p {
        Some(Predicate::Expr(_)) => true,
        Some(Predicate::Compare { field, op, value }) => field.as_str() == "f" && *op == CompareOp::Lt && matches!(value, Value::Int(x) if *x == v),
        _ => false };
    std::mem::forget(p); std::mem::forget(e);
    ok });
vpv_cell!(#[kani::unwind(6)] c09_pred_literal_left_ge, "C09/expr_to_sase_predicate/Ge/literal-op-field is either left to the expression evaluator or mirrored correctly", (v: i64), {
    let (b, _c) = ops(5);
    let e = Expr::Binary { op: b, left: Box::new(Expr::Int(v)), right: Box::new(Expr::Ident(String::from("f"))) };
    let p = expr_to_sase_predicate(&e);
    let ok = match &p {
        Some(Predicate::Expr(_)) => true,
        Some(Predicate::Compare { field, op, value }) => field.as_str() == "f" && *op == CompareOp::Le && matches!(value, Value::Int(x) if *x == v),
        _ => false };
    std::mem::forget(p); std::mem::forget(e);
    ok });
vpv_cell!(#[kani::stub(eval_filter_expr, stub_eval_filter_expr)] #[kani::stub(collect_emitted_event, stub_collect_emitted_event)] #[kani::stub(call_user_function, stub_call_user_function)] c09_eq_null_null, "C09/Eq/Null-Null", (), { agree(0, Expr::Null, Expr::Null) });
vpv_cell!(#[kani::stub(eval_filter_expr, stub_eval_filter_expr)] #[kani::stub(collect_emitted_event, stub_collect_emitted_event)] #[kani::stub(call_user_function, stub_call_user_function)] c09_noteq_null_null, "C09/NotEq/Null-Null", (), { agree(1, Expr::Null, Expr::Null) });
vpv_cell!(#[kani::stub(eval_filter_expr, stub_eval_filter_expr)] #[kani::stub(collect_emitted_event, stub_collect_emitted_event)] #[kani::stub(call_user_function, stub_call_user_function)] c09_lt_null_null, "C09/Lt/Null-Null", (), { agree(2, Expr::Null, Expr::Null) });
vpv_cell!(#[kani::stub(eval_filter_expr, stub_eval_filter_expr)] #[kani::stub(collect_emitted_event, stub_collect_emitted_event)] #[kani::stub(call_user_function, stub_call_user_function)] c09_le_null_null, "C09/Le/Null-Null", (), { agree(3, Expr::Null, Expr::Null) });
vpv_cell!(#[kani::stub(eval_filter_expr, stub_eval_filter_expr)] #[kani::stub(collect_emitted_event, stub_collect_emitted_event)] #[kani::stub(call_user_function, stub_call_user_function)] c09_gt_null_null, "C09/Gt/Null-Null", (), { agree(4, Expr::Null, Expr::Null) });
vpv_cell!(#[kani::stub(eval_filter_expr, stub_eval_filter_expr)] #[kani::stub(collect_emitted_event, stub_collect_emitted_event)] #[kani::stub(call_user_function, stub_call_user_function)] c09_ge_null_null, "C09/Ge/Null-Null", (), { agree(5, Expr::Null, Expr::Null) });

// ---- filters over event FIELDS (missing, or of another type than the literal), through the real parser, compiler and engine: BOUNDED STAND-IN
// (native enumeration).  Field access goes through IndexMap / FxHashMap lookups, which CBMC cannot carry; here the property is checked as stated, on
// the public engine: the same filter text is placed in `stream W = E.where(F)` and in the sequence step `Start as s -> E where F as e`, one event E is
// sent, and the two must agree on whether it is accepted.
#[cfg(vpv_replay)]
pub fn c09_engine_accepts(rt: &tokio::runtime::Runtime, code: &str, events: Vec<crate::event::Event>) -> Option<bool> {
    let program = varpulis_parser::parse(code).ok()?;
    rt.block_on(async {
        let (tx, mut rx) = tokio::sync::mpsc::channel(1000);
        let mut engine = crate::engine::Engine::new(tx);
        engine.load(&program).ok()?;
        for ev in events { engine.process(ev).await.ok()?; }
        Some(rx.try_recv().is_ok())
    })
}
vpv_native!(c09_engine_fields, "C09/engine: `.where(F)` and the sequence step `-> E where F` accept the same events, for F over a field that is missing or of another type than the literal (native enumeration: 6 operators x 5 literals x 10 field values, plus not / and / or over a missing field)", {
    let rt = tokio::runtime::Builder::new_current_thread().enable_all().build().unwrap();
    let ops = ["==", "!=", "<", "<=", ">", ">="];
    let lits = ["5", "5.0", "\"a\"", "true", "6.5"];
    let fields: Vec<(&str, Option<Value>)> = vec![("missing", None), ("Int 5", Some(Value::Int(5))), ("Int 6", Some(Value::Int(6))), ("Float 5.0", Some(Value::Float(5.0))),
        ("Float 5.5", Some(Value::Float(5.5))), ("Float NaN", Some(Value::Float(f64::NAN))), ("Str a", Some(Value::Str("a".into()))), ("Str b", Some(Value::Str("b".into()))),
        ("Bool true", Some(Value::Bool(true))), ("Null", Some(Value::Null))];
    let mut filters: Vec<String> = Vec::new();
    for op in ops { for lit in lits { filters.push(format!("x {} {}", op, lit)); } }
    for f in ["not (x > 5)", "not (x == 5)", "x > 5 or y > 1", "x > 5 and y > 1", "not (x > 5) and y > 1", "x > 5 or not (y > 1)"] { filters.push(f.to_string()); }
    let mut ok = true; let mut shown = 0; let mut n = 0u64;
    for f in &filters { for (fname, fv) in &fields {
        let mk = || { let mut e = crate::event::Event::new("E").with_field("y", Value::Int(2)); if let Some(v) = fv { e = e.with_field("x", v.clone()); } e };
        n += 1;
        let good = vpv_enum_try(|| format!("filter `{}` on an event E with x = {}, y = 2", f, fname), || {
            let w = c09_engine_accepts(&rt, &format!("stream W = E\n    .where({})\n    .emit(ok: 1)\n", f), vec![mk()]);
            let p = c09_engine_accepts(&rt, &format!("stream P = Start as s\n    -> E where {} as e\n    .emit(ok: 1)\n", f), vec![crate::event::Event::new("Start"), mk()]);
            // a filter the parser / compiler rejects in either position says nothing about the two evaluators: skipped
            if w.is_none() || p.is_none() { return true; }
            if w != p { println!("  .where accepts: {:?}   sequence step accepts: {:?}", w, p); }
            w == p
        });
        if !good { ok = false; shown += 1; if shown >= 6 { return false; } }
    } }
    println!("  {} (filter, event) pairs", n);
    ok
});
vpv_replay_table!(c09_eq_null_null, c09_noteq_null_null, c09_lt_null_null, c09_le_null_null, c09_gt_null_null, c09_ge_null_null, c09_pred_literal_left_eq, c09_pred_literal_left_noteq, c09_pred_literal_left_lt, c09_pred_literal_left_le, c09_pred_literal_left_gt, c09_pred_literal_left_ge, c09_eq_int_int, c09_eq_int_float, c09_eq_float_int, c09_eq_float_float, c09_eq_str_str, c09_eq_bool_bool, c09_eq_mismatched_kinds, c09_noteq_int_int, c09_noteq_int_float, c09_noteq_float_int, c09_noteq_float_float, c09_noteq_str_str, c09_noteq_bool_bool, c09_noteq_mismatched_kinds, c09_lt_int_int, c09_lt_int_float, c09_lt_float_int, c09_lt_float_float, c09_lt_str_str, c09_lt_bool_bool, c09_lt_mismatched_kinds, c09_le_int_int, c09_le_int_float, c09_le_float_int, c09_le_float_float, c09_le_str_str, c09_le_bool_bool, c09_le_mismatched_kinds, c09_gt_int_int, c09_gt_int_float, c09_gt_float_int, c09_gt_float_float, c09_gt_str_str, c09_gt_bool_bool, c09_gt_mismatched_kinds, c09_ge_int_int, c09_ge_int_float, c09_ge_float_int, c09_ge_float_float, c09_ge_str_str, c09_ge_bool_bool, c09_ge_mismatched_kinds, c09_pred_eq, c09_pred_noteq, c09_pred_lt, c09_pred_le, c09_pred_gt, c09_pred_ge, c09_engine_fields);
