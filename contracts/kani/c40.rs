// C40 — value equality is an equivalence consistent with hashing (appended to varpulis-core/src/value.rs)
// "equal hashes" is checked as "equal byte streams fed to ANY hasher": a recording Hasher logs every byte written.
use std::hash::{Hash, Hasher};

pub const LOGN: usize = 48;
pub struct Rec { pub log: [u8; LOGN], pub n: usize, pub overflow: bool }
impl Rec { pub fn new() -> Self { Rec { log: [0; LOGN], n: 0, overflow: false } } }
impl Hasher for Rec {
    fn finish(&self) -> u64 { 0 }
    fn write(&mut self, bytes: &[u8]) {
        let mut i = 0;
        while i < bytes.len() {
            if self.n < LOGN { self.log[self.n] = bytes[i]; self.n += 1; } else { self.overflow = true; }
            i += 1;
        }
    }
}
pub fn stream(v: &Value) -> Rec { let mut r = Rec::new(); v.hash(&mut r); r }
pub fn same_stream(a: &Rec, b: &Rec) -> bool {
    if a.overflow || b.overflow { return false; }
    if a.n != b.n { return false; }
    let mut i = 0;
    while i < LOGN { if i < a.n && a.log[i] != b.log[i] { return false; } i += 1; }
    true
}
/// a scalar of kind k: 0 Null, 1 Bool, 2 Int, 3 Float, 4 Timestamp, 5 Duration (payload full-domain)
pub fn scalar(k: u8, i: i64, f: f64) -> Value {
    match k % 6 { 0 => Value::Null, 1 => Value::Bool(i & 1 == 1), 2 => Value::Int(i), 3 => Value::Float(f), 4 => Value::Timestamp(i), _ => Value::Duration(i as u64) }
}
pub fn str1(c: u8) -> Value { Value::Str(((c & 0x7f) as char).to_string().into()) }
/// equivalence + hash-consistency obligations on a triple
pub fn equiv3(a: &Value, b: &Value, c: &Value) -> bool {
    let refl = a == a && b == b && c == c;
    let symm = (a == b) == (b == a) && (b == c) == (c == b);
    let trans = !(a == b && b == c) || a == c;
    let hash_ab = !(a == b) || same_stream(&stream(a), &stream(b));
    refl && symm && trans && hash_ab
}

vpv_cell!(#[kani::unwind(50)] c40_scalar_null, "C40/equivalence+hash/null", (), { let (x, y, z) = (Value::Null, Value::Null, Value::Null); equiv3(&x, &y, &z) });
vpv_cell!(#[kani::unwind(50)] c40_scalar_bool, "C40/equivalence+hash/bool", (a: bool, b: bool, c: bool), { let (x, y, z) = (Value::Bool(a), Value::Bool(b), Value::Bool(c)); equiv3(&x, &y, &z) });
vpv_cell!(#[kani::unwind(50)] c40_scalar_int, "C40/equivalence+hash/int", (a: i64, b: i64, c: i64), { let (x, y, z) = (Value::Int(a), Value::Int(b), Value::Int(c)); equiv3(&x, &y, &z) });
vpv_cell!(#[kani::unwind(50)] c40_scalar_float, "C40/equivalence+hash/float", (a: f64, b: f64, c: f64), { let (x, y, z) = (Value::Float(a), Value::Float(b), Value::Float(c)); equiv3(&x, &y, &z) });
vpv_cell!(#[kani::unwind(50)] c40_scalar_timestamp, "C40/equivalence+hash/timestamp", (a: i64, b: i64, c: i64), { let (x, y, z) = (Value::Timestamp(a), Value::Timestamp(b), Value::Timestamp(c)); equiv3(&x, &y, &z) });
vpv_cell!(#[kani::unwind(50)] c40_scalar_duration, "C40/equivalence+hash/duration", (a: u64, b: u64, c: u64), { let (x, y, z) = (Value::Duration(a), Value::Duration(b), Value::Duration(c)); equiv3(&x, &y, &z) });
vpv_cell!(#[kani::unwind(50)] c40_scalar_str, "C40/equivalence+hash/str(1 char)", (a: u8, b: u8, c: u8), { let (x, y, z) = (str1(a), str1(b), str1(c)); let ok = equiv3(&x, &y, &z); std::mem::forget(x); std::mem::forget(y); std::mem::forget(z); ok });
vpv_cell!(#[kani::unwind(50)] c40_cross_kind, "C40/cross-kind/values of different scalar variants are never equal (all 30 ordered pairs, payloads full-domain)", (b: bool, i: i64, f: f64, d: u64), {
    let mut ok = true;
    ok = ok && !(Value::Null == Value::Bool(b));
    ok = ok && !(Value::Null == Value::Int(i));
    ok = ok && !(Value::Null == Value::Float(f));
    ok = ok && !(Value::Null == Value::Timestamp(i));
    ok = ok && !(Value::Null == Value::Duration(d));
    ok = ok && !(Value::Bool(b) == Value::Null);
    ok = ok && !(Value::Bool(b) == Value::Int(i));
    ok = ok && !(Value::Bool(b) == Value::Float(f));
    ok = ok && !(Value::Bool(b) == Value::Timestamp(i));
    ok = ok && !(Value::Bool(b) == Value::Duration(d));
    ok = ok && !(Value::Int(i) == Value::Null);
    ok = ok && !(Value::Int(i) == Value::Bool(b));
    ok = ok && !(Value::Int(i) == Value::Float(f));
    ok = ok && !(Value::Int(i) == Value::Timestamp(i));
    ok = ok && !(Value::Int(i) == Value::Duration(d));
    ok = ok && !(Value::Float(f) == Value::Null);
    ok = ok && !(Value::Float(f) == Value::Bool(b));
    ok = ok && !(Value::Float(f) == Value::Int(i));
    ok = ok && !(Value::Float(f) == Value::Timestamp(i));
    ok = ok && !(Value::Float(f) == Value::Duration(d));
    ok = ok && !(Value::Timestamp(i) == Value::Null);
    ok = ok && !(Value::Timestamp(i) == Value::Bool(b));
    ok = ok && !(Value::Timestamp(i) == Value::Int(i));
    ok = ok && !(Value::Timestamp(i) == Value::Float(f));
    ok = ok && !(Value::Timestamp(i) == Value::Duration(d));
    ok = ok && !(Value::Duration(d) == Value::Null);
    ok = ok && !(Value::Duration(d) == Value::Bool(b));
    ok = ok && !(Value::Duration(d) == Value::Int(i));
    ok = ok && !(Value::Duration(d) == Value::Float(f));
    ok = ok && !(Value::Duration(d) == Value::Timestamp(i));
    ok });
vpv_cell!(#[kani::unwind(50)] c40_cross_kind_str, "C40/cross-kind/str-vs-scalar", (c: u8, k: u8, i: i64, f: f64), {
    let (x, y) = (str1(c), scalar(k, i, f)); let ok = !(x == y) && !(y == x); std::mem::forget(x); std::mem::forget(y); ok });
vpv_cell!(#[kani::unwind(50)] c40_float_special, "C40/float/NaN-and-signed-zero-consistent-with-hash", (a: f64, b: f64), {
    let (x, y) = (Value::Float(a), Value::Float(b));
    let expect = (a.is_nan() && b.is_nan()) || a == b;
    (x == y) == expect && (!(x == y) || same_stream(&stream(&x), &stream(&y))) });
vpv_cell!(#[kani::unwind(50)] c40_array_float2, "C40/equivalence+hash/array[2] of float", (a0: f64, a1: f64, b0: f64, b1: f64, c0: f64, c1: f64), {
    let x = Value::array(vec![Value::Float(a0), Value::Float(a1)]); let y = Value::array(vec![Value::Float(b0), Value::Float(b1)]); let z = Value::array(vec![Value::Float(c0), Value::Float(c1)]);
    let ok = equiv3(&x, &y, &z); std::mem::forget(x); std::mem::forget(y); std::mem::forget(z); ok });
vpv_cell!(#[kani::unwind(50)] c40_array_len, "C40/equivalence+hash/array length 1 vs 2 (int)", (a0: i64, b0: i64, b1: i64), {
    let x = Value::array(vec![Value::Int(a0)]); let y = Value::array(vec![Value::Int(b0), Value::Int(b1)]);
    let ok = !(x == y) && !(y == x) && x == x && y == y; std::mem::forget(x); std::mem::forget(y); ok });

// ---- the Map arm: BOUNDED STAND-IN (native enumeration).  Building two IndexMaps inside CBMC does not finish (hash-map insertion), so maps are
// checked natively: every map of <= 3 entries over the keys a, b, c and 6 values (ints, NaN, -0.0, 0.0, a string, a nested map), in EVERY insertion
// order, alone and nested inside an array and inside another map: == is reflexive and symmetric, and equal values have equal hashes.
#[cfg(vpv_replay)]
pub fn c40_std_hash(v: &Value) -> u64 { let mut h = std::collections::hash_map::DefaultHasher::new(); v.hash(&mut h); h.finish() }
#[cfg(vpv_replay)]
pub fn c40_perms(n: usize) -> Vec<Vec<usize>> {
    if n == 0 { return vec![vec![]]; }
    let mut out = Vec::new();
    for p in c40_perms(n - 1) { for pos in 0..=p.len() { let mut q = p.clone(); q.insert(pos, n - 1); out.push(q); } }
    out
}
vpv_native!(c40_map_insertion_order, "C40/Value::eq + Hash, Map arm/maps with the same entries inserted in different orders are equal and have equal hashes, also when nested (native enumeration: <= 3 entries over 3 keys x 6 values, every insertion order)", {
    let mut inner = FxIndexMap::default();
    inner.insert(Arc::<str>::from("x"), Value::Int(1)); inner.insert(Arc::<str>::from("y"), Value::Float(2.5));
    let mut inner_rev = FxIndexMap::default();
    inner_rev.insert(Arc::<str>::from("y"), Value::Float(2.5)); inner_rev.insert(Arc::<str>::from("x"), Value::Int(1));
    let vals: Vec<(&str, Value)> = vec![("1", Value::Int(1)), ("NaN", Value::Float(f64::NAN)), ("-0.0", Value::Float(-0.0)), ("0.0", Value::Float(0.0)),
                                         ("\"s\"", Value::Str("s".into())), ("{x:1,y:2.5}", Value::map(inner.clone()))];
    let keys = ["a", "b", "c"];
    let mut ok = true; let mut shown = 0;
    for n in 0..=3usize {
        let total = vals.len().pow(n as u32);
        for code in 0..total {
            let mut pick = Vec::new(); let mut c = code; for _ in 0..n { pick.push(c % vals.len()); c /= vals.len(); }
            let orders = c40_perms(n);
            let build = |ord: &Vec<usize>| { let mut m = FxIndexMap::default(); for &i in ord { m.insert(Arc::<str>::from(keys[i]), vals[pick[i]].1.clone()); } Value::map(m) };
            let first = build(&orders[0]);
            for ord in &orders {
                let label = || format!("entries {{{}}} inserted in order {:?} vs order {:?}", (0..n).map(|i| format!("{}: {}", keys[i], vals[pick[i]].0)).collect::<Vec<_>>().join(", "), orders[0], ord);
                let good = vpv_enum_try(label, || {
                    let other = build(ord);
                    let eq_ok = first == other && other == first && other == other;
                    let hash_ok = c40_std_hash(&first) == c40_std_hash(&other);
                    let (na, nb) = (Value::array(vec![Value::Int(0), first.clone()]), Value::array(vec![Value::Int(0), other.clone()]));
                    let mut wa = FxIndexMap::default(); wa.insert(Arc::<str>::from("k"), first.clone());
                    let mut wb = FxIndexMap::default(); wb.insert(Arc::<str>::from("k"), other.clone());
                    let (ma, mb) = (Value::map(wa), Value::map(wb));
                    if !eq_ok { println!("  equality fails"); }
                    if !hash_ok { println!("  equal maps, different hashes: {:#x} vs {:#x}", c40_std_hash(&first), c40_std_hash(&other)); }
                    eq_ok && hash_ok && na == nb && c40_std_hash(&na) == c40_std_hash(&nb) && ma == mb && c40_std_hash(&ma) == c40_std_hash(&mb)
                });
                if !good { ok = false; shown += 1; if shown >= 3 { return false; } }
            }
        }
    }
    let (a, b) = (Value::map(inner), Value::map(inner_rev));
    ok && a == b && c40_std_hash(&a) == c40_std_hash(&b)
});

// maps with DIFFERENT key sets: == must still be an equivalence (symmetric, transitive) and agree with the hash
vpv_native!(c40_map_equivalence, "C40/Value::eq + Hash, Map arm/== is symmetric and transitive and equal maps hash equally over maps with different key sets (native enumeration: 64 maps = keys a,b,c each absent / 1 / null / NaN; all pairs and triples)", {
    let choices: [Option<Value>; 4] = [None, Some(Value::Int(1)), Some(Value::Null), Some(Value::Float(f64::NAN))];
    let keys = ["a", "b", "c"];
    let mut maps: Vec<(String, Value)> = Vec::new();
    for code in 0..64usize {
        let mut m = FxIndexMap::default(); let mut d = Vec::new(); let mut c = code;
        for k in keys { if let Some(v) = &choices[c % 4] { m.insert(Arc::<str>::from(k), v.clone()); d.push(format!("{}: {:?}", k, v)); } c /= 4; }
        maps.push((format!("{{{}}}", d.join(", ")), Value::map(m)));
    }
    let mut ok = true; let mut shown = 0;
    for (da, a) in &maps { for (db, b) in &maps {
        let good = vpv_enum_try(|| format!("a = {}  b = {}", da, db), || {
            let (ab, ba) = (a == b, b == a);
            if ab != ba { println!("  a == b is {}, b == a is {}", ab, ba); }
            ab == ba && (!ab || c40_std_hash(a) == c40_std_hash(b))
        });
        if !good { ok = false; shown += 1; if shown >= 3 { return false; } }
    } }
    for (da, a) in &maps { for (db, b) in &maps { if a == b { for (dc, c) in &maps { if b == c && a != c {
        println!("  input a = {}  b = {}  c = {} -> a == b and b == c but a != c", da, db, dc); return false; } } } } }
    ok
});
vpv_replay_table!(c40_scalar_null, c40_scalar_bool, c40_scalar_int, c40_scalar_float, c40_scalar_timestamp, c40_scalar_duration, c40_scalar_str, c40_cross_kind, c40_cross_kind_str, c40_float_special, c40_array_float2, c40_array_len, c40_map_insertion_order, c40_map_equivalence);
