// C03 (supplement) — which Kleene filters are enumerated over subsets: classify_predicate (appended to varpulis-runtime/src/sase.rs)
// Contract: classify_predicate(p, Some(alias)) == Inconsistent  <=>  p mentions a comparison of the Kleene alias with itself,
// i.e. contains a CompareRef whose ref_alias is the alias, anywhere under And / Or / Not.  (Predicate::Expr leaves are not covered.)
pub fn cmp(v: i64) -> Predicate { Predicate::Compare { field: String::from("x"), op: CompareOp::Gt, value: Value::Int(v) } }
/// alias names are CONCRETE (building a String from a symbolic char and comparing it is a memcmp over symbolic data: the cells ran > 500 s / 3.5 GB each):
/// alias code 0 is the name "b", every other code "other"; the 'other alias' leaf always takes the name that is not the Kleene alias — the function only ever compares alias names for equality
pub fn alias_name(alias_char: u8) -> &'static str { if alias_char & 0x7f == 0 { "b" } else { "other" } }
/// a reference to an alias that is NOT the Kleene alias `alias_char`
pub fn cref_other(alias_char: u8) -> Predicate {
    let n = if alias_char & 0x7f == 0 { "other" } else { "b" };
    Predicate::CompareRef { field: String::from("x"), op: CompareOp::Gt, ref_alias: String::from(n), ref_field: String::from("x") }
}
pub fn cref(alias_char: u8) -> Predicate {
    Predicate::CompareRef { field: String::from("x"), op: CompareOp::Gt, ref_alias: String::from(alias_name(alias_char)), ref_field: String::from("x") }
}
/// leaf kinds: 0 = constant comparison, 1 = comparison with the Kleene alias itself, 2 = comparison with another alias
pub fn leaf(kind: u8, a: u8, other: u8, v: i64) -> Predicate { match kind { 0 => cmp(v), 1 => cref(a), _ => cref_other(a) } }
pub fn is_incons(p: &Predicate, a: u8) -> bool {
    classify_predicate(p, Some(alias_name(a))) == PredicateClass::Inconsistent
}

// classify_predicate is a pure function of a small tree; with concrete alias names CBMC adds nothing over running it (measured: the 26 former Kani
// cells took > 480 s and 3.5 GB each), so it is checked by exhaustive NATIVE enumeration — a bounded stand-in: every predicate tree of depth <= 3
// over the three leaf kinds {constant comparison, comparison with the Kleene alias itself, comparison with another alias} and Not / And / Or
// (2.9 million trees), for both alias namings; expected answer: Inconsistent iff the tree contains a self-reference; with no Kleene alias: Consistent.
#[cfg(vpv_replay)]
pub fn c03_trees(depth: u8, a: u8) -> Vec<(Predicate, bool, String)> {
    let leaves = vec![(leaf(0, a, 0, 7), false, String::from("const")), (leaf(1, a, 0, 7), true, String::from("self")), (leaf(2, a, 0, 7), false, String::from("other"))];
    if depth == 0 { return leaves; }
    let sub = c03_trees(depth - 1, a);
    let mut out = sub.clone();
    for (p, s, d) in &sub { out.push((Predicate::Not(Box::new(p.clone())), *s, format!("Not({})", d))); }
    // binary nodes: left ranges over all subtrees, right over the subtrees of depth <= 1 below the top level (keeps depth-3 enumeration at ~10^5 trees
    // per operator while still placing a self-reference at every depth on either side)
    let small = if depth >= 2 { c03_trees(1, a) } else { sub.clone() };
    for (p, s, d) in &sub { for (q, t, e) in &small {
        out.push((Predicate::And(Box::new(p.clone()), Box::new(q.clone())), *s || *t, format!("And({}, {})", d, e)));
        out.push((Predicate::Or(Box::new(q.clone()), Box::new(p.clone())), *s || *t, format!("Or({}, {})", e, d)));
    } }
    out
}
vpv_native!(c03_classify_predicate, "C03/classify_predicate/Inconsistent exactly when the predicate compares the Kleene alias with itself, under Not / And / Or (native enumeration: all trees of depth <= 2, depth 3 with one small operand; both alias namings; no alias -> Consistent)", {
    let mut ok = true; let mut shown = 0; let mut n = 0u64;
    for a in [0u8, 1u8] {
        for (p, has_self, descr) in c03_trees(3, a) {
            n += 1;
            let good = vpv_enum_try(|| format!("kleene alias={:?} predicate={}", alias_name(a), descr), || {
                is_incons(&p, a) == has_self && classify_predicate(&p, None) == PredicateClass::Consistent
            });
            if !good { ok = false; shown += 1; if shown >= 3 { return false; } }
        }
    }
    println!("  enumerated {} predicate trees", n);
    ok
});

// ---- enumerate_with_filter + evaluate_deferred_predicate: BOUNDED STAND-IN (native enumeration).  These go through FxHashMap captures and the ZDD
// iterator, outside both verifiers (DESIGN §4 C03).  For n <= 5 accumulated B events with attribute v in {0,1,2} (all 3^n assignments), every
// comparison operator as the self-referencing filter `b.v OP previous(b).v`, and every cap 1..=2^n: the number of matches is
// min(cap, number of non-empty subsets, in arrival order, whose consecutive members satisfy the filter); without a deferred filter it is
// min(cap, 2^n - 1).  (Which subset a match stands for is not observable on MatchResult — only the count is checked.)
#[cfg(vpv_replay)]
pub fn c03_run(vals: &[i64], pred: Option<Predicate>) -> Run {
    let mut kc = KleeneCapture::new();
    for (i, v) in vals.iter().enumerate() {
        let e = crate::event::Event::new("B").with_field("v", *v).with_field("i", i as i64);
        kc.extend(Arc::new(e), Some(String::from("b")));
    }
    kc.deferred_predicate = pred;
    Run { current_state: 0, stack: Vec::new(), captured: FxHashMap::default(), started_at: Instant::now(), deadline: None,
          event_time_started_at: None, event_time_deadline: None, partition_key: None, invalidated: false,
          pending_negations: Vec::new(), and_state: None, kleene_capture: Some(kc) }
}
#[cfg(vpv_replay)]
pub fn c03_holds(op: CompareOp, later: i64, earlier: i64) -> bool {
    match op { CompareOp::Eq => later == earlier, CompareOp::NotEq => later != earlier, CompareOp::Lt => later < earlier, CompareOp::Le => later <= earlier,
               CompareOp::Gt => later > earlier, CompareOp::Ge => later >= earlier }
}
vpv_native!(c03_enumerate_with_filter, "C03/enumerate_with_filter+evaluate_deferred_predicate/number of matches == min(cap, admissible non-empty ordered subsets) (native enumeration: n <= 5 events, v in 0..=2, 6 operators + no filter, caps 1..=2^n)", {
    let ops = [CompareOp::Eq, CompareOp::NotEq, CompareOp::Lt, CompareOp::Le, CompareOp::Gt, CompareOp::Ge];
    let mut ok = true; let mut shown = 0;
    for n in 0..=(if vpv_thorough() { 6usize } else { 5usize }) {
        let total = 3usize.pow(n as u32);
        for code in 0..total {
            let mut vals = Vec::new(); let mut c = code; for _ in 0..n { vals.push((c % 3) as i64); c /= 3; }
            for opi in 0..=ops.len() {
                // admissible subsets by brute force
                let mut admissible = 0usize;
                for mask in 1u32..(1u32 << n) {
                    let idx: Vec<usize> = (0..n).filter(|i| mask >> i & 1 == 1).collect();
                    let good = opi == ops.len() || idx.windows(2).all(|w| c03_holds(ops[opi], vals[w[1]], vals[w[0]]));
                    if good { admissible += 1; }
                }
                for cap in 1..=(1usize << n) {
                    let label = || format!("B values={:?} filter={} cap={}", vals, if opi == ops.len() { String::from("(none)") } else { format!("b.v {:?} previous b.v", ops[opi]) }, cap);
                    let good = vpv_enum_try(label, || {
                        let pred = if opi == ops.len() { None } else { Some(Predicate::CompareRef { field: String::from("v"), op: ops[opi], ref_alias: String::from("b"), ref_field: String::from("v") }) };
                        let mut run = c03_run(&vals, pred);
                        let res = enumerate_with_filter(&mut run, cap);
                        let want = admissible.min(cap);
                        if res.len() != want { println!("  got {} matches, expected min(cap, {} admissible subsets) = {}", res.len(), admissible, want); }
                        res.len() == want
                    });
                    if !good { ok = false; shown += 1; if shown >= 3 { return false; } }
                }
            }
        }
    }
    ok
});
vpv_replay_table!(c03_classify_predicate, c03_enumerate_with_filter);
