// C11 — evaluating any expression never panics (appended to engine/evaluator.rs)
// Obligations are Kani's built-in panic checks (overflow, division, index/slice bounds, unwrap, explicit panic)
// inside the REAL evaluator; every cell body returns true, so a cell fails only through such a check.
use varpulis_core::ast::{BinOp, Expr, UnaryOp, Arg};

/// literal of a symbolic kind: Int / Float / Bool / Null / Str / Duration, numeric payloads full-domain
pub fn lit(k: u8, i: i64, f: f64) -> Expr {
    match k % 5 {
        0 => Expr::Int(i),
        1 => Expr::Float(f),
        2 => Expr::Bool(i & 1 == 1),
        3 => Expr::Null,
        _ => Expr::Duration(i as u64),
    }
}
pub fn val(k: u8, i: i64, f: f64) -> Value {
    match k % 6 {
        0 => Value::Int(i),
        1 => Value::Float(f),
        2 => Value::Bool(i & 1 == 1),
        3 => Value::Null,
        4 => Value::Str("ab".into()),
        _ => Value::Duration(i as u64),
    }
}
pub fn val_nostr(k: u8, i: i64, f: f64) -> Value {
    match k % 5 { 0 => Value::Int(i), 1 => Value::Float(f), 2 => Value::Bool(i & 1 == 1), 3 => Value::Null, _ => Value::Duration(i as u64) }
}
pub fn run_expr(e: Expr) -> bool {
    let ev = Event::new_at("E", chrono::DateTime::<chrono::Utc>::UNIX_EPOCH);
    let ctx = SequenceContext::default();
    let fns: FxHashMap<String, UserFunction> = FxHashMap::default();
    let binds: FxHashMap<String, Value> = FxHashMap::default();
    let r = eval_expr_with_functions(&e, &ev, &ctx, &fns, &binds);
    std::mem::forget(r);
    std::mem::forget(e);
    true
}
pub fn run_builtin(name: &str, args: Vec<Value>) -> bool {
    let r = eval_builtin_function(name, &args);
    std::mem::forget(r);
    std::mem::forget(args);
    true
}
#[cfg(kani)] pub fn stub_eval_filter_expr(_e: &Expr, _ev: &Event, _c: &SequenceContext) -> Option<Value> { None }
#[cfg(kani)] pub fn stub_collect_emitted_event(_e: Event) {}
#[cfg(kani)] pub fn stub_call_user_function(_f: &UserFunction, _a: &[Value], _e: &Event, _c: &SequenceContext, _fs: &FxHashMap<String, UserFunction>) -> Option<Value> { None }

vpv_cell!(#[kani::stub(eval_filter_expr, stub_eval_filter_expr)] #[kani::stub(collect_emitted_event, stub_collect_emitted_event)] #[kani::stub(call_user_function, stub_call_user_function)] c11_bin_add_ii, "C11/eval_expr_with_functions/Binary/Add/Int-Int/no-panic", (a0: i64, a1: i64), { run_expr(Expr::Binary { op: BinOp::Add, left: Box::new(Expr::Int(a0)), right: Box::new(Expr::Int(a1)) }) });
vpv_cell!(#[kani::stub(eval_filter_expr, stub_eval_filter_expr)] #[kani::stub(collect_emitted_event, stub_collect_emitted_event)] #[kani::stub(call_user_function, stub_call_user_function)] c11_bin_add_if, "C11/eval_expr_with_functions/Binary/Add/Int-Float/no-panic", (a0: i64, a1: f64), { run_expr(Expr::Binary { op: BinOp::Add, left: Box::new(Expr::Int(a0)), right: Box::new(Expr::Float(a1)) }) });
vpv_cell!(#[kani::stub(eval_filter_expr, stub_eval_filter_expr)] #[kani::stub(collect_emitted_event, stub_collect_emitted_event)] #[kani::stub(call_user_function, stub_call_user_function)] c11_bin_add_fi, "C11/eval_expr_with_functions/Binary/Add/Float-Int/no-panic", (a0: f64, a1: i64), { run_expr(Expr::Binary { op: BinOp::Add, left: Box::new(Expr::Float(a0)), right: Box::new(Expr::Int(a1)) }) });
vpv_cell!(#[kani::stub(eval_filter_expr, stub_eval_filter_expr)] #[kani::stub(collect_emitted_event, stub_collect_emitted_event)] #[kani::stub(call_user_function, stub_call_user_function)] c11_bin_add_ff, "C11/eval_expr_with_functions/Binary/Add/Float-Float/no-panic", (a0: f64, a1: f64), { run_expr(Expr::Binary { op: BinOp::Add, left: Box::new(Expr::Float(a0)), right: Box::new(Expr::Float(a1)) }) });
vpv_cell!(#[kani::stub(eval_filter_expr, stub_eval_filter_expr)] #[kani::stub(collect_emitted_event, stub_collect_emitted_event)] #[kani::stub(call_user_function, stub_call_user_function)] c11_bin_sub_ii, "C11/eval_expr_with_functions/Binary/Sub/Int-Int/no-panic", (a0: i64, a1: i64), { run_expr(Expr::Binary { op: BinOp::Sub, left: Box::new(Expr::Int(a0)), right: Box::new(Expr::Int(a1)) }) });
vpv_cell!(#[kani::stub(eval_filter_expr, stub_eval_filter_expr)] #[kani::stub(collect_emitted_event, stub_collect_emitted_event)] #[kani::stub(call_user_function, stub_call_user_function)] c11_bin_sub_if, "C11/eval_expr_with_functions/Binary/Sub/Int-Float/no-panic", (a0: i64, a1: f64), { run_expr(Expr::Binary { op: BinOp::Sub, left: Box::new(Expr::Int(a0)), right: Box::new(Expr::Float(a1)) }) });
vpv_cell!(#[kani::stub(eval_filter_expr, stub_eval_filter_expr)] #[kani::stub(collect_emitted_event, stub_collect_emitted_event)] #[kani::stub(call_user_function, stub_call_user_function)] c11_bin_sub_fi, "C11/eval_expr_with_functions/Binary/Sub/Float-Int/no-panic", (a0: f64, a1: i64), { run_expr(Expr::Binary { op: BinOp::Sub, left: Box::new(Expr::Float(a0)), right: Box::new(Expr::Int(a1)) }) });
vpv_cell!(#[kani::stub(eval_filter_expr, stub_eval_filter_expr)] #[kani::stub(collect_emitted_event, stub_collect_emitted_event)] #[kani::stub(call_user_function, stub_call_user_function)] c11_bin_sub_ff, "C11/eval_expr_with_functions/Binary/Sub/Float-Float/no-panic", (a0: f64, a1: f64), { run_expr(Expr::Binary { op: BinOp::Sub, left: Box::new(Expr::Float(a0)), right: Box::new(Expr::Float(a1)) }) });
vpv_cell!(#[kani::stub(eval_filter_expr, stub_eval_filter_expr)] #[kani::stub(collect_emitted_event, stub_collect_emitted_event)] #[kani::stub(call_user_function, stub_call_user_function)] c11_bin_mul_ii, "C11/eval_expr_with_functions/Binary/Mul/Int-Int/no-panic", (a0: i64, a1: i64), { run_expr(Expr::Binary { op: BinOp::Mul, left: Box::new(Expr::Int(a0)), right: Box::new(Expr::Int(a1)) }) });
vpv_cell!(#[kani::stub(eval_filter_expr, stub_eval_filter_expr)] #[kani::stub(collect_emitted_event, stub_collect_emitted_event)] #[kani::stub(call_user_function, stub_call_user_function)] c11_bin_mul_if, "C11/eval_expr_with_functions/Binary/Mul/Int-Float/no-panic", (a0: i64, a1: f64), { run_expr(Expr::Binary { op: BinOp::Mul, left: Box::new(Expr::Int(a0)), right: Box::new(Expr::Float(a1)) }) });
vpv_cell!(#[kani::stub(eval_filter_expr, stub_eval_filter_expr)] #[kani::stub(collect_emitted_event, stub_collect_emitted_event)] #[kani::stub(call_user_function, stub_call_user_function)] c11_bin_mul_fi, "C11/eval_expr_with_functions/Binary/Mul/Float-Int/no-panic", (a0: f64, a1: i64), { run_expr(Expr::Binary { op: BinOp::Mul, left: Box::new(Expr::Float(a0)), right: Box::new(Expr::Int(a1)) }) });
vpv_cell!(#[kani::stub(eval_filter_expr, stub_eval_filter_expr)] #[kani::stub(collect_emitted_event, stub_collect_emitted_event)] #[kani::stub(call_user_function, stub_call_user_function)] c11_bin_mul_ff, "C11/eval_expr_with_functions/Binary/Mul/Float-Float/no-panic", (a0: f64, a1: f64), { run_expr(Expr::Binary { op: BinOp::Mul, left: Box::new(Expr::Float(a0)), right: Box::new(Expr::Float(a1)) }) });
vpv_cell!(#[kani::stub(eval_filter_expr, stub_eval_filter_expr)] #[kani::stub(collect_emitted_event, stub_collect_emitted_event)] #[kani::stub(call_user_function, stub_call_user_function)] c11_bin_div_ii, "C11/eval_expr_with_functions/Binary/Div/Int-Int/no-panic", (a0: i64, a1: i64), { run_expr(Expr::Binary { op: BinOp::Div, left: Box::new(Expr::Int(a0)), right: Box::new(Expr::Int(a1)) }) });
vpv_cell!(#[kani::stub(eval_filter_expr, stub_eval_filter_expr)] #[kani::stub(collect_emitted_event, stub_collect_emitted_event)] #[kani::stub(call_user_function, stub_call_user_function)] c11_bin_div_if, "C11/eval_expr_with_functions/Binary/Div/Int-Float/no-panic", (a0: i64, a1: f64), { run_expr(Expr::Binary { op: BinOp::Div, left: Box::new(Expr::Int(a0)), right: Box::new(Expr::Float(a1)) }) });
vpv_cell!(#[kani::stub(eval_filter_expr, stub_eval_filter_expr)] #[kani::stub(collect_emitted_event, stub_collect_emitted_event)] #[kani::stub(call_user_function, stub_call_user_function)] c11_bin_div_fi, "C11/eval_expr_with_functions/Binary/Div/Float-Int/no-panic", (a0: f64, a1: i64), { run_expr(Expr::Binary { op: BinOp::Div, left: Box::new(Expr::Float(a0)), right: Box::new(Expr::Int(a1)) }) });
vpv_cell!(#[kani::stub(eval_filter_expr, stub_eval_filter_expr)] #[kani::stub(collect_emitted_event, stub_collect_emitted_event)] #[kani::stub(call_user_function, stub_call_user_function)] c11_bin_div_ff, "C11/eval_expr_with_functions/Binary/Div/Float-Float/no-panic", (a0: f64, a1: f64), { run_expr(Expr::Binary { op: BinOp::Div, left: Box::new(Expr::Float(a0)), right: Box::new(Expr::Float(a1)) }) });
vpv_cell!(#[kani::stub(eval_filter_expr, stub_eval_filter_expr)] #[kani::stub(collect_emitted_event, stub_collect_emitted_event)] #[kani::stub(call_user_function, stub_call_user_function)] c11_bin_mod_ii, "C11/eval_expr_with_functions/Binary/Mod/Int-Int/no-panic", (a0: i64, a1: i64), { run_expr(Expr::Binary { op: BinOp::Mod, left: Box::new(Expr::Int(a0)), right: Box::new(Expr::Int(a1)) }) });
vpv_cell!(#[kani::stub(eval_filter_expr, stub_eval_filter_expr)] #[kani::stub(collect_emitted_event, stub_collect_emitted_event)] #[kani::stub(call_user_function, stub_call_user_function)] c11_bin_mod_if, "C11/eval_expr_with_functions/Binary/Mod/Int-Float/no-panic", (a0: i64, a1: f64), { run_expr(Expr::Binary { op: BinOp::Mod, left: Box::new(Expr::Int(a0)), right: Box::new(Expr::Float(a1)) }) });
vpv_cell!(#[kani::stub(eval_filter_expr, stub_eval_filter_expr)] #[kani::stub(collect_emitted_event, stub_collect_emitted_event)] #[kani::stub(call_user_function, stub_call_user_function)] c11_bin_mod_fi, "C11/eval_expr_with_functions/Binary/Mod/Float-Int/no-panic", (a0: f64, a1: i64), { run_expr(Expr::Binary { op: BinOp::Mod, left: Box::new(Expr::Float(a0)), right: Box::new(Expr::Int(a1)) }) });
vpv_cell!(#[kani::stub(eval_filter_expr, stub_eval_filter_expr)] #[kani::stub(collect_emitted_event, stub_collect_emitted_event)] #[kani::stub(call_user_function, stub_call_user_function)] c11_bin_mod_ff, "C11/eval_expr_with_functions/Binary/Mod/Float-Float/no-panic", (a0: f64, a1: f64), { run_expr(Expr::Binary { op: BinOp::Mod, left: Box::new(Expr::Float(a0)), right: Box::new(Expr::Float(a1)) }) });
vpv_cell!(#[kani::stub(eval_filter_expr, stub_eval_filter_expr)] #[kani::stub(collect_emitted_event, stub_collect_emitted_event)] #[kani::stub(call_user_function, stub_call_user_function)] c11_bin_pow_ii, "C11/eval_expr_with_functions/Binary/Pow/Int-Int/no-panic", (a0: i64, a1: i64), { run_expr(Expr::Binary { op: BinOp::Pow, left: Box::new(Expr::Int(a0)), right: Box::new(Expr::Int(a1)) }) });
vpv_cell!(#[kani::stub(eval_filter_expr, stub_eval_filter_expr)] #[kani::stub(collect_emitted_event, stub_collect_emitted_event)] #[kani::stub(call_user_function, stub_call_user_function)] c11_bin_pow_if, "C11/eval_expr_with_functions/Binary/Pow/Int-Float/no-panic", (a0: i64, a1: f64), { run_expr(Expr::Binary { op: BinOp::Pow, left: Box::new(Expr::Int(a0)), right: Box::new(Expr::Float(a1)) }) });
vpv_cell!(#[kani::stub(eval_filter_expr, stub_eval_filter_expr)] #[kani::stub(collect_emitted_event, stub_collect_emitted_event)] #[kani::stub(call_user_function, stub_call_user_function)] c11_bin_pow_fi, "C11/eval_expr_with_functions/Binary/Pow/Float-Int/no-panic", (a0: f64, a1: i64), { run_expr(Expr::Binary { op: BinOp::Pow, left: Box::new(Expr::Float(a0)), right: Box::new(Expr::Int(a1)) }) });
vpv_cell!(#[kani::stub(eval_filter_expr, stub_eval_filter_expr)] #[kani::stub(collect_emitted_event, stub_collect_emitted_event)] #[kani::stub(call_user_function, stub_call_user_function)] c11_bin_pow_ff, "C11/eval_expr_with_functions/Binary/Pow/Float-Float/no-panic", (a0: f64, a1: f64), { run_expr(Expr::Binary { op: BinOp::Pow, left: Box::new(Expr::Float(a0)), right: Box::new(Expr::Float(a1)) }) });
vpv_cell!(#[kani::stub(eval_filter_expr, stub_eval_filter_expr)] #[kani::stub(collect_emitted_event, stub_collect_emitted_event)] #[kani::stub(call_user_function, stub_call_user_function)] #[kani::unwind(6)] c11_bin_add_ss, "C11/eval_expr_with_functions/Binary/Add/Str-Str/no-panic", (), { run_expr(Expr::Binary { op: BinOp::Add, left: Box::new(Expr::Str(String::from("ab"))), right: Box::new(Expr::Str(String::from("c"))) }) });
vpv_cell!(#[kani::stub(eval_filter_expr, stub_eval_filter_expr)] #[kani::stub(collect_emitted_event, stub_collect_emitted_event)] #[kani::stub(call_user_function, stub_call_user_function)] c11_un_neg_i, "C11/eval_expr_with_functions/Unary/Neg/Int/no-panic", (a0: i64), { run_expr(Expr::Unary { op: UnaryOp::Neg, expr: Box::new(Expr::Int(a0)) }) });
vpv_cell!(#[kani::stub(eval_filter_expr, stub_eval_filter_expr)] #[kani::stub(collect_emitted_event, stub_collect_emitted_event)] #[kani::stub(call_user_function, stub_call_user_function)] c11_un_neg_f, "C11/eval_expr_with_functions/Unary/Neg/Float/no-panic", (a0: f64), { run_expr(Expr::Unary { op: UnaryOp::Neg, expr: Box::new(Expr::Float(a0)) }) });
vpv_cell!(#[kani::stub(eval_filter_expr, stub_eval_filter_expr)] #[kani::stub(collect_emitted_event, stub_collect_emitted_event)] #[kani::stub(call_user_function, stub_call_user_function)] c11_un_not_b, "C11/eval_expr_with_functions/Unary/Not/Bool/no-panic", (a0: bool), { run_expr(Expr::Unary { op: UnaryOp::Not, expr: Box::new(Expr::Bool(a0)) }) });
vpv_cell!(#[kani::stub(eval_filter_expr, stub_eval_filter_expr)] #[kani::stub(collect_emitted_event, stub_collect_emitted_event)] #[kani::stub(call_user_function, stub_call_user_function)] c11_un_bitnot_i, "C11/eval_expr_with_functions/Unary/BitNot/Int/no-panic", (a0: i64), { run_expr(Expr::Unary { op: UnaryOp::BitNot, expr: Box::new(Expr::Int(a0)) }) });
vpv_cell!(#[kani::stub(eval_filter_expr, stub_eval_filter_expr)] #[kani::stub(collect_emitted_event, stub_collect_emitted_event)] #[kani::stub(call_user_function, stub_call_user_function)] c11_un_not_i, "C11/eval_expr_with_functions/Unary/Not/Int/no-panic", (a0: i64), { run_expr(Expr::Unary { op: UnaryOp::Not, expr: Box::new(Expr::Int(a0)) }) });
vpv_cell!(c11_fn_abs, "C11/eval_builtin_function/abs/no-panic", (k: u8, i: i64, f: f64), { run_builtin("abs", vec![val(k, i, f)]) });
vpv_cell!(c11_fn_sqrt, "C11/eval_builtin_function/sqrt/no-panic", (k: u8, i: i64, f: f64), { run_builtin("sqrt", vec![val(k, i, f)]) });
vpv_cell!(c11_fn_floor, "C11/eval_builtin_function/floor/no-panic", (k: u8, i: i64, f: f64), { run_builtin("floor", vec![val(k, i, f)]) });
vpv_cell!(c11_fn_ceil, "C11/eval_builtin_function/ceil/no-panic", (k: u8, i: i64, f: f64), { run_builtin("ceil", vec![val(k, i, f)]) });
vpv_cell!(c11_fn_round, "C11/eval_builtin_function/round/no-panic", (k: u8, i: i64, f: f64), { run_builtin("round", vec![val(k, i, f)]) });
vpv_cell!(c11_fn_log, "C11/eval_builtin_function/log/no-panic", (k: u8, i: i64, f: f64), { run_builtin("log", vec![val(k, i, f)]) });
vpv_cell!(c11_fn_log10, "C11/eval_builtin_function/log10/no-panic", (k: u8, i: i64, f: f64), { run_builtin("log10", vec![val(k, i, f)]) });
vpv_cell!(c11_fn_exp, "C11/eval_builtin_function/exp/no-panic", (k: u8, i: i64, f: f64), { run_builtin("exp", vec![val(k, i, f)]) });
vpv_cell!(c11_fn_sin, "C11/eval_builtin_function/sin/no-panic", (k: u8, i: i64, f: f64), { run_builtin("sin", vec![val(k, i, f)]) });
vpv_cell!(c11_fn_cos, "C11/eval_builtin_function/cos/no-panic", (k: u8, i: i64, f: f64), { run_builtin("cos", vec![val(k, i, f)]) });
vpv_cell!(c11_fn_is_null, "C11/eval_builtin_function/is_null/no-panic", (k: u8, i: i64, f: f64), { run_builtin("is_null", vec![val(k, i, f)]) });
vpv_cell!(c11_fn_is_int, "C11/eval_builtin_function/is_int/no-panic", (k: u8, i: i64, f: f64), { run_builtin("is_int", vec![val(k, i, f)]) });
vpv_cell!(c11_fn_type_of, "C11/eval_builtin_function/type_of/no-panic", (k: u8, i: i64, f: f64), { run_builtin("type_of", vec![val(k, i, f)]) });
vpv_cell!(c11_fn_pow, "C11/eval_builtin_function/pow/no-panic", (k1: u8, i1: i64, f1: f64, k2: u8, i2: i64, f2: f64), { run_builtin("pow", vec![val(k1, i1, f1), val(k2, i2, f2)]) });
vpv_cell!(c11_fn_min, "C11/eval_builtin_function/min/no-panic", (k1: u8, i1: i64, f1: f64, k2: u8, i2: i64, f2: f64), { run_builtin("min", vec![val(k1, i1, f1), val(k2, i2, f2)]) });
vpv_cell!(c11_fn_max, "C11/eval_builtin_function/max/no-panic", (k1: u8, i1: i64, f1: f64, k2: u8, i2: i64, f2: f64), { run_builtin("max", vec![val(k1, i1, f1), val(k2, i2, f2)]) });
vpv_cell!(#[kani::stub(eval_filter_expr, stub_eval_filter_expr)] #[kani::stub(collect_emitted_event, stub_collect_emitted_event)] #[kani::stub(call_user_function, stub_call_user_function)] c11_bin_eq_scalars, "C11/eval_expr_with_functions/Binary/Eq/Int-Int, Float-Float, Bool-Bool, Int-Float/no-panic", (a: i64, b: i64, x: f64, y: f64, p: bool, q: bool), {
    run_expr(Expr::Binary { op: BinOp::Eq, left: Box::new(Expr::Int(a)), right: Box::new(Expr::Int(b)) })
    && run_expr(Expr::Binary { op: BinOp::Eq, left: Box::new(Expr::Float(x)), right: Box::new(Expr::Float(y)) })
    && run_expr(Expr::Binary { op: BinOp::Eq, left: Box::new(Expr::Bool(p)), right: Box::new(Expr::Bool(q)) })
    && run_expr(Expr::Binary { op: BinOp::Eq, left: Box::new(Expr::Int(a)), right: Box::new(Expr::Float(y)) }) });
vpv_cell!(#[kani::stub(eval_filter_expr, stub_eval_filter_expr)] #[kani::stub(collect_emitted_event, stub_collect_emitted_event)] #[kani::stub(call_user_function, stub_call_user_function)] c11_bin_noteq_scalars, "C11/eval_expr_with_functions/Binary/NotEq/Int-Int, Float-Float, Bool-Bool, Int-Float/no-panic", (a: i64, b: i64, x: f64, y: f64, p: bool, q: bool), {
    run_expr(Expr::Binary { op: BinOp::NotEq, left: Box::new(Expr::Int(a)), right: Box::new(Expr::Int(b)) })
    && run_expr(Expr::Binary { op: BinOp::NotEq, left: Box::new(Expr::Float(x)), right: Box::new(Expr::Float(y)) })
    && run_expr(Expr::Binary { op: BinOp::NotEq, left: Box::new(Expr::Bool(p)), right: Box::new(Expr::Bool(q)) })
    && run_expr(Expr::Binary { op: BinOp::NotEq, left: Box::new(Expr::Int(a)), right: Box::new(Expr::Float(y)) }) });
vpv_cell!(#[kani::stub(eval_filter_expr, stub_eval_filter_expr)] #[kani::stub(collect_emitted_event, stub_collect_emitted_event)] #[kani::stub(call_user_function, stub_call_user_function)] c11_bin_lt_scalars, "C11/eval_expr_with_functions/Binary/Lt/Int-Int, Float-Float, Bool-Bool, Int-Float/no-panic", (a: i64, b: i64, x: f64, y: f64, p: bool, q: bool), {
    run_expr(Expr::Binary { op: BinOp::Lt, left: Box::new(Expr::Int(a)), right: Box::new(Expr::Int(b)) })
    && run_expr(Expr::Binary { op: BinOp::Lt, left: Box::new(Expr::Float(x)), right: Box::new(Expr::Float(y)) })
    && run_expr(Expr::Binary { op: BinOp::Lt, left: Box::new(Expr::Bool(p)), right: Box::new(Expr::Bool(q)) })
    && run_expr(Expr::Binary { op: BinOp::Lt, left: Box::new(Expr::Int(a)), right: Box::new(Expr::Float(y)) }) });
vpv_cell!(#[kani::stub(eval_filter_expr, stub_eval_filter_expr)] #[kani::stub(collect_emitted_event, stub_collect_emitted_event)] #[kani::stub(call_user_function, stub_call_user_function)] c11_bin_le_scalars, "C11/eval_expr_with_functions/Binary/Le/Int-Int, Float-Float, Bool-Bool, Int-Float/no-panic", (a: i64, b: i64, x: f64, y: f64, p: bool, q: bool), {
    run_expr(Expr::Binary { op: BinOp::Le, left: Box::new(Expr::Int(a)), right: Box::new(Expr::Int(b)) })
    && run_expr(Expr::Binary { op: BinOp::Le, left: Box::new(Expr::Float(x)), right: Box::new(Expr::Float(y)) })
    && run_expr(Expr::Binary { op: BinOp::Le, left: Box::new(Expr::Bool(p)), right: Box::new(Expr::Bool(q)) })
    && run_expr(Expr::Binary { op: BinOp::Le, left: Box::new(Expr::Int(a)), right: Box::new(Expr::Float(y)) }) });
vpv_cell!(#[kani::stub(eval_filter_expr, stub_eval_filter_expr)] #[kani::stub(collect_emitted_event, stub_collect_emitted_event)] #[kani::stub(call_user_function, stub_call_user_function)] c11_bin_gt_scalars, "C11/eval_expr_with_functions/Binary/Gt/Int-Int, Float-Float, Bool-Bool, Int-Float/no-panic", (a: i64, b: i64, x: f64, y: f64, p: bool, q: bool), {
    run_expr(Expr::Binary { op: BinOp::Gt, left: Box::new(Expr::Int(a)), right: Box::new(Expr::Int(b)) })
    && run_expr(Expr::Binary { op: BinOp::Gt, left: Box::new(Expr::Float(x)), right: Box::new(Expr::Float(y)) })
    && run_expr(Expr::Binary { op: BinOp::Gt, left: Box::new(Expr::Bool(p)), right: Box::new(Expr::Bool(q)) })
    && run_expr(Expr::Binary { op: BinOp::Gt, left: Box::new(Expr::Int(a)), right: Box::new(Expr::Float(y)) }) });
vpv_cell!(#[kani::stub(eval_filter_expr, stub_eval_filter_expr)] #[kani::stub(collect_emitted_event, stub_collect_emitted_event)] #[kani::stub(call_user_function, stub_call_user_function)] c11_bin_ge_scalars, "C11/eval_expr_with_functions/Binary/Ge/Int-Int, Float-Float, Bool-Bool, Int-Float/no-panic", (a: i64, b: i64, x: f64, y: f64, p: bool, q: bool), {
    run_expr(Expr::Binary { op: BinOp::Ge, left: Box::new(Expr::Int(a)), right: Box::new(Expr::Int(b)) })
    && run_expr(Expr::Binary { op: BinOp::Ge, left: Box::new(Expr::Float(x)), right: Box::new(Expr::Float(y)) })
    && run_expr(Expr::Binary { op: BinOp::Ge, left: Box::new(Expr::Bool(p)), right: Box::new(Expr::Bool(q)) })
    && run_expr(Expr::Binary { op: BinOp::Ge, left: Box::new(Expr::Int(a)), right: Box::new(Expr::Float(y)) }) });
vpv_cell!(#[kani::stub(eval_filter_expr, stub_eval_filter_expr)] #[kani::stub(collect_emitted_event, stub_collect_emitted_event)] #[kani::stub(call_user_function, stub_call_user_function)] c11_bin_in_scalars, "C11/eval_expr_with_functions/Binary/In/Int-Int, Float-Float, Bool-Bool, Int-Float/no-panic", (a: i64, b: i64, x: f64, y: f64, p: bool, q: bool), {
    run_expr(Expr::Binary { op: BinOp::In, left: Box::new(Expr::Int(a)), right: Box::new(Expr::Int(b)) })
    && run_expr(Expr::Binary { op: BinOp::In, left: Box::new(Expr::Float(x)), right: Box::new(Expr::Float(y)) })
    && run_expr(Expr::Binary { op: BinOp::In, left: Box::new(Expr::Bool(p)), right: Box::new(Expr::Bool(q)) })
    && run_expr(Expr::Binary { op: BinOp::In, left: Box::new(Expr::Int(a)), right: Box::new(Expr::Float(y)) }) });
vpv_cell!(#[kani::stub(eval_filter_expr, stub_eval_filter_expr)] #[kani::stub(collect_emitted_event, stub_collect_emitted_event)] #[kani::stub(call_user_function, stub_call_user_function)] c11_bin_notin_scalars, "C11/eval_expr_with_functions/Binary/NotIn/Int-Int, Float-Float, Bool-Bool, Int-Float/no-panic", (a: i64, b: i64, x: f64, y: f64, p: bool, q: bool), {
    run_expr(Expr::Binary { op: BinOp::NotIn, left: Box::new(Expr::Int(a)), right: Box::new(Expr::Int(b)) })
    && run_expr(Expr::Binary { op: BinOp::NotIn, left: Box::new(Expr::Float(x)), right: Box::new(Expr::Float(y)) })
    && run_expr(Expr::Binary { op: BinOp::NotIn, left: Box::new(Expr::Bool(p)), right: Box::new(Expr::Bool(q)) })
    && run_expr(Expr::Binary { op: BinOp::NotIn, left: Box::new(Expr::Int(a)), right: Box::new(Expr::Float(y)) }) });
vpv_cell!(#[kani::stub(eval_filter_expr, stub_eval_filter_expr)] #[kani::stub(collect_emitted_event, stub_collect_emitted_event)] #[kani::stub(call_user_function, stub_call_user_function)] c11_bin_is_scalars, "C11/eval_expr_with_functions/Binary/Is/Int-Int, Float-Float, Bool-Bool, Int-Float/no-panic", (a: i64, b: i64, x: f64, y: f64, p: bool, q: bool), {
    run_expr(Expr::Binary { op: BinOp::Is, left: Box::new(Expr::Int(a)), right: Box::new(Expr::Int(b)) })
    && run_expr(Expr::Binary { op: BinOp::Is, left: Box::new(Expr::Float(x)), right: Box::new(Expr::Float(y)) })
    && run_expr(Expr::Binary { op: BinOp::Is, left: Box::new(Expr::Bool(p)), right: Box::new(Expr::Bool(q)) })
    && run_expr(Expr::Binary { op: BinOp::Is, left: Box::new(Expr::Int(a)), right: Box::new(Expr::Float(y)) }) });
vpv_cell!(#[kani::stub(eval_filter_expr, stub_eval_filter_expr)] #[kani::stub(collect_emitted_event, stub_collect_emitted_event)] #[kani::stub(call_user_function, stub_call_user_function)] c11_bin_and_scalars, "C11/eval_expr_with_functions/Binary/And/Int-Int, Float-Float, Bool-Bool, Int-Float/no-panic", (a: i64, b: i64, x: f64, y: f64, p: bool, q: bool), {
    run_expr(Expr::Binary { op: BinOp::And, left: Box::new(Expr::Int(a)), right: Box::new(Expr::Int(b)) })
    && run_expr(Expr::Binary { op: BinOp::And, left: Box::new(Expr::Float(x)), right: Box::new(Expr::Float(y)) })
    && run_expr(Expr::Binary { op: BinOp::And, left: Box::new(Expr::Bool(p)), right: Box::new(Expr::Bool(q)) })
    && run_expr(Expr::Binary { op: BinOp::And, left: Box::new(Expr::Int(a)), right: Box::new(Expr::Float(y)) }) });
vpv_cell!(#[kani::stub(eval_filter_expr, stub_eval_filter_expr)] #[kani::stub(collect_emitted_event, stub_collect_emitted_event)] #[kani::stub(call_user_function, stub_call_user_function)] c11_bin_or_scalars, "C11/eval_expr_with_functions/Binary/Or/Int-Int, Float-Float, Bool-Bool, Int-Float/no-panic", (a: i64, b: i64, x: f64, y: f64, p: bool, q: bool), {
    run_expr(Expr::Binary { op: BinOp::Or, left: Box::new(Expr::Int(a)), right: Box::new(Expr::Int(b)) })
    && run_expr(Expr::Binary { op: BinOp::Or, left: Box::new(Expr::Float(x)), right: Box::new(Expr::Float(y)) })
    && run_expr(Expr::Binary { op: BinOp::Or, left: Box::new(Expr::Bool(p)), right: Box::new(Expr::Bool(q)) })
    && run_expr(Expr::Binary { op: BinOp::Or, left: Box::new(Expr::Int(a)), right: Box::new(Expr::Float(y)) }) });
vpv_cell!(#[kani::stub(eval_filter_expr, stub_eval_filter_expr)] #[kani::stub(collect_emitted_event, stub_collect_emitted_event)] #[kani::stub(call_user_function, stub_call_user_function)] c11_bin_xor_scalars, "C11/eval_expr_with_functions/Binary/Xor/Int-Int, Float-Float, Bool-Bool, Int-Float/no-panic", (a: i64, b: i64, x: f64, y: f64, p: bool, q: bool), {
    run_expr(Expr::Binary { op: BinOp::Xor, left: Box::new(Expr::Int(a)), right: Box::new(Expr::Int(b)) })
    && run_expr(Expr::Binary { op: BinOp::Xor, left: Box::new(Expr::Float(x)), right: Box::new(Expr::Float(y)) })
    && run_expr(Expr::Binary { op: BinOp::Xor, left: Box::new(Expr::Bool(p)), right: Box::new(Expr::Bool(q)) })
    && run_expr(Expr::Binary { op: BinOp::Xor, left: Box::new(Expr::Int(a)), right: Box::new(Expr::Float(y)) }) });
vpv_cell!(#[kani::stub(eval_filter_expr, stub_eval_filter_expr)] #[kani::stub(collect_emitted_event, stub_collect_emitted_event)] #[kani::stub(call_user_function, stub_call_user_function)] c11_bin_followedby_scalars, "C11/eval_expr_with_functions/Binary/FollowedBy/Int-Int, Float-Float, Bool-Bool, Int-Float/no-panic", (a: i64, b: i64, x: f64, y: f64, p: bool, q: bool), {
    run_expr(Expr::Binary { op: BinOp::FollowedBy, left: Box::new(Expr::Int(a)), right: Box::new(Expr::Int(b)) })
    && run_expr(Expr::Binary { op: BinOp::FollowedBy, left: Box::new(Expr::Float(x)), right: Box::new(Expr::Float(y)) })
    && run_expr(Expr::Binary { op: BinOp::FollowedBy, left: Box::new(Expr::Bool(p)), right: Box::new(Expr::Bool(q)) })
    && run_expr(Expr::Binary { op: BinOp::FollowedBy, left: Box::new(Expr::Int(a)), right: Box::new(Expr::Float(y)) }) });
vpv_cell!(#[kani::stub(eval_filter_expr, stub_eval_filter_expr)] #[kani::stub(collect_emitted_event, stub_collect_emitted_event)] #[kani::stub(call_user_function, stub_call_user_function)] c11_bin_bitand_scalars, "C11/eval_expr_with_functions/Binary/BitAnd/Int-Int, Float-Float, Bool-Bool, Int-Float/no-panic", (a: i64, b: i64, x: f64, y: f64, p: bool, q: bool), {
    run_expr(Expr::Binary { op: BinOp::BitAnd, left: Box::new(Expr::Int(a)), right: Box::new(Expr::Int(b)) })
    && run_expr(Expr::Binary { op: BinOp::BitAnd, left: Box::new(Expr::Float(x)), right: Box::new(Expr::Float(y)) })
    && run_expr(Expr::Binary { op: BinOp::BitAnd, left: Box::new(Expr::Bool(p)), right: Box::new(Expr::Bool(q)) })
    && run_expr(Expr::Binary { op: BinOp::BitAnd, left: Box::new(Expr::Int(a)), right: Box::new(Expr::Float(y)) }) });
vpv_cell!(#[kani::stub(eval_filter_expr, stub_eval_filter_expr)] #[kani::stub(collect_emitted_event, stub_collect_emitted_event)] #[kani::stub(call_user_function, stub_call_user_function)] c11_bin_bitor_scalars, "C11/eval_expr_with_functions/Binary/BitOr/Int-Int, Float-Float, Bool-Bool, Int-Float/no-panic", (a: i64, b: i64, x: f64, y: f64, p: bool, q: bool), {
    run_expr(Expr::Binary { op: BinOp::BitOr, left: Box::new(Expr::Int(a)), right: Box::new(Expr::Int(b)) })
    && run_expr(Expr::Binary { op: BinOp::BitOr, left: Box::new(Expr::Float(x)), right: Box::new(Expr::Float(y)) })
    && run_expr(Expr::Binary { op: BinOp::BitOr, left: Box::new(Expr::Bool(p)), right: Box::new(Expr::Bool(q)) })
    && run_expr(Expr::Binary { op: BinOp::BitOr, left: Box::new(Expr::Int(a)), right: Box::new(Expr::Float(y)) }) });
vpv_cell!(#[kani::stub(eval_filter_expr, stub_eval_filter_expr)] #[kani::stub(collect_emitted_event, stub_collect_emitted_event)] #[kani::stub(call_user_function, stub_call_user_function)] c11_bin_bitxor_scalars, "C11/eval_expr_with_functions/Binary/BitXor/Int-Int, Float-Float, Bool-Bool, Int-Float/no-panic", (a: i64, b: i64, x: f64, y: f64, p: bool, q: bool), {
    run_expr(Expr::Binary { op: BinOp::BitXor, left: Box::new(Expr::Int(a)), right: Box::new(Expr::Int(b)) })
    && run_expr(Expr::Binary { op: BinOp::BitXor, left: Box::new(Expr::Float(x)), right: Box::new(Expr::Float(y)) })
    && run_expr(Expr::Binary { op: BinOp::BitXor, left: Box::new(Expr::Bool(p)), right: Box::new(Expr::Bool(q)) })
    && run_expr(Expr::Binary { op: BinOp::BitXor, left: Box::new(Expr::Int(a)), right: Box::new(Expr::Float(y)) }) });
vpv_cell!(#[kani::stub(eval_filter_expr, stub_eval_filter_expr)] #[kani::stub(collect_emitted_event, stub_collect_emitted_event)] #[kani::stub(call_user_function, stub_call_user_function)] c11_bin_shl_scalars, "C11/eval_expr_with_functions/Binary/Shl/Int-Int, Float-Float, Bool-Bool, Int-Float/no-panic", (a: i64, b: i64, x: f64, y: f64, p: bool, q: bool), {
    run_expr(Expr::Binary { op: BinOp::Shl, left: Box::new(Expr::Int(a)), right: Box::new(Expr::Int(b)) })
    && run_expr(Expr::Binary { op: BinOp::Shl, left: Box::new(Expr::Float(x)), right: Box::new(Expr::Float(y)) })
    && run_expr(Expr::Binary { op: BinOp::Shl, left: Box::new(Expr::Bool(p)), right: Box::new(Expr::Bool(q)) })
    && run_expr(Expr::Binary { op: BinOp::Shl, left: Box::new(Expr::Int(a)), right: Box::new(Expr::Float(y)) }) });
vpv_cell!(#[kani::stub(eval_filter_expr, stub_eval_filter_expr)] #[kani::stub(collect_emitted_event, stub_collect_emitted_event)] #[kani::stub(call_user_function, stub_call_user_function)] c11_bin_shr_scalars, "C11/eval_expr_with_functions/Binary/Shr/Int-Int, Float-Float, Bool-Bool, Int-Float/no-panic", (a: i64, b: i64, x: f64, y: f64, p: bool, q: bool), {
    run_expr(Expr::Binary { op: BinOp::Shr, left: Box::new(Expr::Int(a)), right: Box::new(Expr::Int(b)) })
    && run_expr(Expr::Binary { op: BinOp::Shr, left: Box::new(Expr::Float(x)), right: Box::new(Expr::Float(y)) })
    && run_expr(Expr::Binary { op: BinOp::Shr, left: Box::new(Expr::Bool(p)), right: Box::new(Expr::Bool(q)) })
    && run_expr(Expr::Binary { op: BinOp::Shr, left: Box::new(Expr::Int(a)), right: Box::new(Expr::Float(y)) }) });

// ---- Index / Slice / If / string and collection built-ins: BOUNDED STAND-IN (native enumeration).  The Kani cells for these were dropped (Vec<Value> /
// String clone and drop glue: CBMC did not finish in 25 min each).  Natively: every built-in function name x every argument tuple of length <= 3 over a
// pool of 16 values (boundary ints, floats incl. NaN/inf, non-ASCII strings, arrays, a map), and Index / Slice on arrays and strings of length 0..=3
// with every bound in {none, i64::MIN, -2..=5, i64::MAX}: the REAL evaluator returns (Some or None) without panicking.  (`range` is excluded by the
// property: it materialises its result.)
#[cfg(vpv_replay)]
pub fn c11_pool() -> Vec<Value> {
    let mut m = varpulis_core::value::FxIndexMap::default();
    m.insert(std::sync::Arc::<str>::from("k"), Value::Int(1));
    vec![Value::Int(0), Value::Int(-1), Value::Int(2), Value::Int(i64::MAX), Value::Int(i64::MIN), Value::Float(1.5), Value::Float(f64::NAN), Value::Float(f64::INFINITY),
         Value::Float(-1e300), Value::Str("".into()), Value::Str("a\u{e9}\u{4e16}".into()), Value::Str("12".into()), Value::Null, Value::Bool(true),
         Value::array(vec![Value::Int(3), Value::Str("x".into()), Value::Float(f64::NAN)]), Value::map(m)]
}
#[cfg(vpv_replay)]
pub const C11_BUILTINS: [&str; 49] = ["abs", "sqrt", "floor", "ceil", "round", "pow", "log", "exp", "sin", "cos", "tan", "min", "max", "len", "first", "last", "push", "pop", "reverse",
    "sort", "contains", "keys", "values", "get", "set", "sum", "avg", "to_string", "to_int", "to_float", "trim", "lower", "lowercase", "upper", "uppercase", "split", "join", "replace",
    "starts_with", "ends_with", "substring", "type_of", "is_null", "is_int", "is_float", "is_string", "is_bool", "is_array", "is_map"];
vpv_native!(c11_builtins_no_panic, "C11/eval_builtin_function/every built-in (except range) on every argument tuple of length <= 3 over a pool of 16 values returns without panicking (native enumeration)", {
    let pool = c11_pool();
    let mut ok = true; let mut shown = 0; let mut n = 0u64;
    for name in C11_BUILTINS {
        for arity in 0..=3usize {
            let total = pool.len().pow(arity as u32);
            for code in 0..total {
                let mut args = Vec::new(); let mut c = code; for _ in 0..arity { args.push(pool[c % pool.len()].clone()); c /= pool.len(); }
                n += 1;
                let good = vpv_enum_try(|| format!("{}({})", name, args.iter().map(|a| format!("{:?}", a)).collect::<Vec<_>>().join(", ")), || { let _ = eval_builtin_function(name, &args); true });
                if !good { ok = false; shown += 1; if shown >= 3 { return false; } }
            }
        }
    }
    println!("  {} calls", n);
    ok
});
#[cfg(vpv_replay)]
pub fn c11_lit_of(v: &Value) -> Expr {
    match v { Value::Int(i) => Expr::Int(*i), Value::Float(f) => Expr::Float(*f), Value::Str(s) => Expr::Str(s.to_string()), Value::Bool(b) => Expr::Bool(*b), _ => Expr::Null }
}
vpv_native!(c11_index_slice_if_no_panic, "C11/eval_expr_with_functions/Index, Slice, If, Coalesce over arrays and strings of length 0..=3 with every bound in {none, i64::MIN, -2..=5, i64::MAX} never panic (native enumeration)", {
    let bounds: Vec<Option<i64>> = vec![None, Some(i64::MIN), Some(-2), Some(-1), Some(0), Some(1), Some(2), Some(3), Some(4), Some(5), Some(i64::MAX)];
    let mut bases: Vec<(String, Expr)> = Vec::new();
    for len in 0..=3usize {
        bases.push((format!("array of {} ints", len), Expr::Array((0..len).map(|i| Expr::Int(i as i64)).collect())));
        let st: String = ["a", "\u{e9}", "\u{4e16}"].iter().take(len).map(|x| x.to_string()).collect();
        bases.push((format!("string {:?}", st), Expr::Str(st)));
    }
    bases.push((String::from("null"), Expr::Null)); bases.push((String::from("int"), Expr::Int(7)));
    let mut ok = true; let mut shown = 0;
    for (bn, base) in &bases {
        for s0 in &bounds { for e0 in &bounds {
            let e = Expr::Slice { expr: Box::new(base.clone()), start: s0.map(|x| Box::new(Expr::Int(x))), end: e0.map(|x| Box::new(Expr::Int(x))) };
            let good = vpv_enum_try(|| format!("({})[{:?}:{:?}]", bn, s0, e0), || run_expr(e.clone()));
            if !good { ok = false; shown += 1; if shown >= 3 { return false; } }
        } }
        for i0 in &bounds {
            for idx in [i0.map(Expr::Int).unwrap_or(Expr::Null), Expr::Float(1.5), Expr::Str(String::from("k"))] {
                let e = Expr::Index { expr: Box::new(base.clone()), index: Box::new(idx.clone()) };
                let good = vpv_enum_try(|| format!("({})[{:?}]", bn, idx), || run_expr(e.clone()));
                if !good { ok = false; shown += 1; if shown >= 3 { return false; } }
            }
        }
    }
    for c in c11_pool() { for t in [Expr::Int(1), Expr::Null] {
        let e = Expr::If { cond: Box::new(c11_lit_of(&c)), then_branch: Box::new(t.clone()), else_branch: Box::new(Expr::Str(String::from("e"))) };
        let good = vpv_enum_try(|| format!("if {:?} then {:?} else \"e\"", c, t), || run_expr(e.clone()));
        if !good { ok = false; shown += 1; if shown >= 3 { return false; } }
    } }
    ok
});
vpv_replay_table!(c11_bin_eq_scalars, c11_bin_noteq_scalars, c11_bin_lt_scalars, c11_bin_le_scalars, c11_bin_gt_scalars, c11_bin_ge_scalars, c11_bin_in_scalars, c11_bin_notin_scalars, c11_bin_is_scalars, c11_bin_and_scalars, c11_bin_or_scalars, c11_bin_xor_scalars, c11_bin_followedby_scalars, c11_bin_bitand_scalars, c11_bin_bitor_scalars, c11_bin_bitxor_scalars, c11_bin_shl_scalars, c11_bin_shr_scalars, c11_bin_add_ii, c11_bin_add_if, c11_bin_add_fi, c11_bin_add_ff, c11_bin_sub_ii, c11_bin_sub_if, c11_bin_sub_fi, c11_bin_sub_ff, c11_bin_mul_ii, c11_bin_mul_if, c11_bin_mul_fi, c11_bin_mul_ff, c11_bin_div_ii, c11_bin_div_if, c11_bin_div_fi, c11_bin_div_ff, c11_bin_mod_ii, c11_bin_mod_if, c11_bin_mod_fi, c11_bin_mod_ff, c11_bin_pow_ii, c11_bin_pow_if, c11_bin_pow_fi, c11_bin_pow_ff, c11_bin_add_ss, c11_un_neg_i, c11_un_neg_f, c11_un_not_b, c11_un_bitnot_i, c11_un_not_i, c11_fn_abs, c11_fn_sqrt, c11_fn_floor, c11_fn_ceil, c11_fn_round, c11_fn_log, c11_fn_log10, c11_fn_exp, c11_fn_sin, c11_fn_cos, c11_fn_is_null, c11_fn_is_int, c11_fn_type_of, c11_fn_pow, c11_fn_min, c11_fn_max, c11_builtins_no_panic, c11_index_slice_if_no_panic);
