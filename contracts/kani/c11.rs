// C11 — evaluating any expression never panics (appended to engine/evaluator.rs)
// Obligations are Kani's built-in panic checks (overflow, division, index/slice bounds, unwrap, explicit panic)
// inside the REAL evaluator; every cell body returns true, so a cell fails only through such a check.
use varpulis_core::ast::{BinOp, Expr, UnaryOp, Arg};

/// literal of a symbolic kind: Int / Float / Bool / Null / Str / Duration, numeric payloads full-domain
pub fn lit(k: u8, i: i64, f: f64) -> Expr {
    match k % 5 {
        0 => Expr::Int(i),
        1 => Expr::Float(f),
        2 => Expr::Bool(i & 1 == 1),
        3 => Expr::Null,
        _ => Expr::Duration(i as u64),
    }
}
pub fn val(k: u8, i: i64, f: f64) -> Value {
    match k % 6 {
        0 => Value::Int(i),
        1 => Value::Float(f),
        2 => Value::Bool(i & 1 == 1),
        3 => Value::Null,
        4 => Value::Str("ab".into()),
        _ => Value::Duration(i as u64),
    }
}
pub fn val_nostr(k: u8, i: i64, f: f64) -> Value {
    match k % 5 { 0 => Value::Int(i), 1 => Value::Float(f), 2 => Value::Bool(i & 1 == 1), 3 => Value::Null, _ => Value::Duration(i as u64) }
}
pub fn run_expr(e: Expr) -> bool {
    let ev = Event::new_at("E", chrono::DateTime::<chrono::Utc>::UNIX_EPOCH);
    let ctx = SequenceContext::default();
    let fns: FxHashMap<String, UserFunction> = FxHashMap::default();
    let binds: FxHashMap<String, Value> = FxHashMap::default();
    let r = eval_expr_with_functions(&e, &ev, &ctx, &fns, &binds);
    std::mem::forget(r);
    std::mem::forget(e);
    true
}
pub fn run_builtin(name: &str, args: Vec<Value>) -> bool {
    let r = eval_builtin_function(name, &args);
    std::mem::forget(r);
    std::mem::forget(args);
    true
}
#[cfg(kani)] pub fn stub_eval_filter_expr(_e: &Expr, _ev: &Event, _c: &SequenceContext) -> Option<Value> { None }
#[cfg(kani)] pub fn stub_collect_emitted_event(_e: Event) {}
#[cfg(kani)] pub fn stub_call_user_function(_f: &UserFunction, _a: &[Value], _e: &Event, _c: &SequenceContext, _fs: &FxHashMap<String, UserFunction>) -> Option<Value> { None }

vpv_cell!(#[kani::stub(eval_filter_expr, stub_eval_filter_expr)] #[kani::stub(collect_emitted_event, stub_collect_emitted_event)] #[kani::stub(call_user_function, stub_call_user_function)] c11_bin_add_ii, "C11/eval_expr_with_functions/Binary/Add/Int-Int/no-panic", (a0: i64, a1: i64), { run_expr(Expr::Binary { op: BinOp::Add, left: Box::new(Expr::Int(a0)), right: Box::new(Expr::Int(a1)) }) });
vpv_cell!(#[kani::stub(eval_filter_expr, stub_eval_filter_expr)] #[kani::stub(collect_emitted_event, stub_collect_emitted_event)] #[kani::stub(call_user_function, stub_call_user_function)] c11_bin_add_if, "C11/eval_expr_with_functions/Binary/Add/Int-Float/no-panic", (a0: i64, a1: f64), { run_expr(Expr::Binary { op: BinOp::Add, left: Box::new(Expr::Int(a0)), right: Box::new(Expr::Float(a1)) }) });
vpv_cell!(#[kani::stub(eval_filter_expr, stub_eval_filter_expr)] #[kani::stub(collect_emitted_event, stub_collect_emitted_event)] #[kani::stub(call_user_function, stub_call_user_function)] c11_bin_add_fi, "C11/eval_expr_with_functions/Binary/Add/Float-Int/no-panic", (a0: f64, a1: i64), { run_expr(Expr::Binary { op: BinOp::Add, left: Box::new(Expr::Float(a0)), right: Box::new(Expr::Int(a1)) }) });
vpv_cell!(#[kani::stub(eval_filter_expr, stub_eval_filter_expr)] #[kani::stub(collect_emitted_event, stub_collect_emitted_event)] #[kani::stub(call_user_function, stub_call_user_function)] c11_bin_add_ff, "C11/eval_expr_with_functions/Binary/Add/Float-Float/no-panic", (a0: f64, a1: f64), { run_expr(Expr::Binary { op: BinOp::Add, left: Box::new(Expr::Float(a0)), right: Box::new(Expr::Float(a1)) }) });
vpv_cell!(#[kani::stub(eval_filter_expr, stub_eval_filter_expr)] #[kani::stub(collect_emitted_event, stub_collect_emitted_event)] #[kani::stub(call_user_function, stub_call_user_function)] c11_bin_sub_ii, "C11/eval_expr_with_functions/Binary/Sub/Int-Int/no-panic", (a0: i64, a1: i64), { run_expr(Expr::Binary { op: BinOp::Sub, left: Box::new(Expr::Int(a0)), right: Box::new(Expr::Int(a1)) }) });
vpv_cell!(#[kani::stub(eval_filter_expr, stub_eval_filter_expr)] #[kani::stub(collect_emitted_event, stub_collect_emitted_event)] #[kani::stub(call_user_function, stub_call_user_function)] c11_bin_sub_if, "C11/eval_expr_with_functions/Binary/Sub/Int-Float/no-panic", (a0: i64, a1: f64), { run_expr(Expr::Binary { op: BinOp::Sub, left: Box::new(Expr::Int(a0)), right: Box::new(Expr::Float(a1)) }) });
vpv_cell!(#[kani::stub(eval_filter_expr, stub_eval_filter_expr)] #[kani::stub(collect_emitted_event, stub_collect_emitted_event)] #[kani::stub(call_user_function, stub_call_user_function)] c11_bin_sub_fi, "C11/eval_expr_with_functions/Binary/Sub/Float-Int/no-panic", (a0: f64, a1: i64), { run_expr(Expr::Binary { op: BinOp::Sub, left: Box::new(Expr::Float(a0)), right: Box::new(Expr::Int(a1)) }) });
vpv_cell!(#[kani::stub(eval_filter_expr, stub_eval_filter_expr)] #[kani::stub(collect_emitted_event, stub_collect_emitted_event)] #[kani::stub(call_user_function, stub_call_user_function)] c11_bin_sub_ff, "C11/eval_expr_with_functions/Binary/Sub/Float-Float/no-panic", (a0: f64, a1: f64), { run_expr(Expr::Binary { op: BinOp::Sub, left: Box::new(Expr::Float(a0)), right: Box::new(Expr::Float(a1)) }) });
vpv_cell!(#[kani::stub(eval_filter_expr, stub_eval_filter_expr)] #[kani::stub(collect_emitted_event, stub_collect_emitted_event)] #[kani::stub(call_user_function, stub_call_user_function)] c11_bin_mul_ii, "C11/eval_expr_with_functions/Binary/Mul/Int-Int/no-panic", (a0: i64, a1: i64), { run_expr(Expr::Binary { op: BinOp::Mul, left: Box::new(Expr::Int(a0)), right: Box::new(Expr::Int(a1)) }) });
vpv_cell!(#[kani::stub(eval_filter_expr, stub_eval_filter_expr)] #[kani::stub(collect_emitted_event, stub_collect_emitted_event)] #[kani::stub(call_user_function, stub_call_user_function)] c11_bin_mul_if, "C11/eval_expr_with_functions/Binary/Mul/Int-Float/no-panic", (a0: i64, a1: f64), { run_expr(Expr::Binary { op: BinOp::Mul, left: Box::new(Expr::Int(a0)), right: Box::new(Expr::Float(a1)) }) });
vpv_cell!(#[kani::stub(eval_filter_expr, stub_eval_filter_expr)] #[kani::stub(collect_emitted_event, stub_collect_emitted_event)] #[kani::stub(call_user_function, stub_call_user_function)] c11_bin_mul_fi, "C11/eval_expr_with_functions/Binary/Mul/Float-Int/no-panic", (a0: f64, a1: i64), { run_expr(Expr::Binary { op: BinOp::Mul, left: Box::new(Expr::Float(a0)), right: Box::new(Expr::Int(a1)) }) });
vpv_cell!(#[kani::stub(eval_filter_expr, stub_eval_filter_expr)] #[kani::stub(collect_emitted_event, stub_collect_emitted_event)] #[kani::stub(call_user_function, stub_call_user_function)] c11_bin_mul_ff, "C11/eval_expr_with_functions/Binary/Mul/Float-Float/no-panic", (a0: f64, a1: f64), { run_expr(Expr::Binary { op: BinOp::Mul, left: Box::new(Expr::Float(a0)), right: Box::new(Expr::Float(a1)) }) });
vpv_cell!(#[kani::stub(eval_filter_expr, stub_eval_filter_expr)] #[kani::stub(collect_emitted_event, stub_collect_emitted_event)] #[kani::stub(call_user_function, stub_call_user_function)] c11_bin_div_ii, "C11/eval_expr_with_functions/Binary/Div/Int-Int/no-panic", (a0: i64, a1: i64), { run_expr(Expr::Binary { op: BinOp::Div, left: Box::new(Expr::Int(a0)), right: Box::new(Expr::Int(a1)) }) });
vpv_cell!(#[kani::stub(eval_filter_expr, stub_eval_filter_expr)] #[kani::stub(collect_emitted_event, stub_collect_emitted_event)] #[kani::stub(call_user_function, stub_call_user_function)] c11_bin_div_if, "C11/eval_expr_with_functions/Binary/Div/Int-Float/no-panic", (a0: i64, a1: f64), { run_expr(Expr::Binary { op: BinOp::Div, left: Box::new(Expr::Int(a0)), right: Box::new(Expr::Float(a1)) }) });
vpv_cell!(#[kani::stub(eval_filter_expr, stub_eval_filter_expr)] #[kani::stub(collect_emitted_event, stub_collect_emitted_event)] #[kani::stub(call_user_function, stub_call_user_function)] c11_bin_div_fi, "C11/eval_expr_with_functions/Binary/Div/Float-Int/no-panic", (a0: f64, a1: i64), { run_expr(Expr::Binary { op: BinOp::Div, left: Box::new(Expr::Float(a0)), right: Box::new(Expr::Int(a1)) }) });
vpv_cell!(#[kani::stub(eval_filter_expr, stub_eval_filter_expr)] #[kani::stub(collect_emitted_event, stub_collect_emitted_event)] #[kani::stub(call_user_function, stub_call_user_function)] c11_bin_div_ff, "C11/eval_expr_with_functions/Binary/Div/Float-Float/no-panic", (a0: f64, a1: f64), { run_expr(Expr::Binary { op: BinOp::Div, left: Box::new(Expr::Float(a0)), right: Box::new(Expr::Float(a1)) }) });
vpv_cell!(#[kani::stub(eval_filter_expr, stub_eval_filter_expr)] #[kani::stub(collect_emitted_event, stub_collect_emitted_event)] #[kani::stub(call_user_function, stub_call_user_function)] c11_bin_mod_ii, "C11/eval_expr_with_functions/Binary/Mod/Int-Int/no-panic", (a0: i64, a1: i64), { run_expr(Expr::Binary { op: BinOp::Mod, left: Box::new(Expr::Int(a0)), right: Box::new(Expr::Int(a1)) }) });
vpv_cell!(#[kani::stub(eval_filter_expr, stub_eval_filter_expr)] #[kani::stub(collect_emitted_event, stub_collect_emitted_event)] #[kani::stub(call_user_function, stub_call_user_function)] c11_bin_mod_if, "C11/eval_expr_with_functions/Binary/Mod/Int-Float/no-panic", (a0: i64, a1: f64), { run_expr(Expr::Binary { op: BinOp::Mod, left: Box::new(Expr::Int(a0)), right: Box::new(Expr::Float(a1)) }) });
vpv_cell!(#[kani::stub(eval_filter_expr, stub_eval_filter_expr)] #[kani::stub(collect_emitted_event, stub_collect_emitted_event)] #[kani::stub(call_user_function, stub_call_user_function)] c11_bin_mod_fi, "C11/eval_expr_with_functions/Binary/Mod/Float-Int/no-panic", (a0: f64, a1: i64), { run_expr(Expr::Binary { op: BinOp::Mod, left: Box::new(Expr::Float(a0)), right: Box::new(Expr::Int(a1)) }) });
vpv_cell!(#[kani::stub(eval_filter_expr, stub_eval_filter_expr)] #[kani::stub(collect_emitted_event, stub_collect_emitted_event)] #[kani::stub(call_user_function, stub_call_user_function)] c11_bin_mod_ff, "C11/eval_expr_with_functions/Binary/Mod/Float-Float/no-panic", (a0: f64, a1: f64), { run_expr(Expr::Binary { op: BinOp::Mod, left: Box::new(Expr::Float(a0)), right: Box::new(Expr::Float(a1)) }) });
vpv_cell!(#[kani::stub(eval_filter_expr, stub_eval_filter_expr)] #[kani::stub(collect_emitted_event, stub_collect_emitted_event)] #[kani::stub(call_user_function, stub_call_user_function)] c11_bin_pow_ii, "C11/eval_expr_with_functions/Binary/Pow/Int-Int/no-panic", (a0: i64, a1: i64), { run_expr(Expr::Binary { op: BinOp::Pow, left: Box::new(Expr::Int(a0)), right: Box::new(Expr::Int(a1)) }) });
vpv_cell!(#[kani::stub(eval_filter_expr, stub_eval_filter_expr)] #[kani::stub(collect_emitted_event, stub_collect_emitted_event)] #[kani::stub(call_user_function, stub_call_user_function)] c11_bin_pow_if, "C11/eval_expr_with_functions/Binary/Pow/Int-Float/no-panic", (a0: i64, a1: f64), { run_expr(Expr::Binary { op: BinOp::Pow, left: Box::new(Expr::Int(a0)), right: Box::new(Expr::Float(a1)) }) });
vpv_cell!(#[kani::stub(eval_filter_expr, stub_eval_filter_expr)] #[kani::stub(collect_emitted_event, stub_collect_emitted_event)] #[kani::stub(call_user_function, stub_call_user_function)] c11_bin_pow_fi, "C11/eval_expr_with_functions/Binary/Pow/Float-Int/no-panic", (a0: f64, a1: i64), { run_expr(Expr::Binary { op: BinOp::Pow, left: Box::new(Expr::Float(a0)), right: Box::new(Expr::Int(a1)) }) });
vpv_cell!(#[kani::stub(eval_filter_expr, stub_eval_filter_expr)] #[kani::stub(collect_emitted_event, stub_collect_emitted_event)] #[kani::stub(call_user_function, stub_call_user_function)] c11_bin_pow_ff, "C11/eval_expr_with_functions/Binary/Pow/Float-Float/no-panic", (a0: f64, a1: f64), { run_expr(Expr::Binary { op: BinOp::Pow, left: Box::new(Expr::Float(a0)), right: Box::new(Expr::Float(a1)) }) });
vpv_cell!(#[kani::stub(eval_filter_expr, stub_eval_filter_expr)] #[kani::stub(collect_emitted_event, stub_collect_emitted_event)] #[kani::stub(call_user_function, stub_call_user_function)] #[kani::unwind(6)] c11_bin_add_ss, "C11/eval_expr_with_functions/Binary/Add/Str-Str/no-panic", (), { run_expr(Expr::Binary { op: BinOp::Add, left: Box::new(Expr::Str(String::from("ab"))), right: Box::new(Expr::Str(String::from("c"))) }) });
vpv_cell!(#[kani::stub(eval_filter_expr, stub_eval_filter_expr)] #[kani::stub(collect_emitted_event, stub_collect_emitted_event)] #[kani::stub(call_user_function, stub_call_user_function)] c11_un_neg_i, "C11/eval_expr_with_functions/Unary/Neg/Int/no-panic", (a0: i64), { run_expr(Expr::Unary { op: UnaryOp::Neg, expr: Box::new(Expr::Int(a0)) }) });
vpv_cell!(#[kani::stub(eval_filter_expr, stub_eval_filter_expr)] #[kani::stub(collect_emitted_event, stub_collect_emitted_event)] #[kani::stub(call_user_function, stub_call_user_function)] c11_un_neg_f, "C11/eval_expr_with_functions/Unary/Neg/Float/no-panic", (a0: f64), { run_expr(Expr::Unary { op: UnaryOp::Neg, expr: Box::new(Expr::Float(a0)) }) });
vpv_cell!(#[kani::stub(eval_filter_expr, stub_eval_filter_expr)] #[kani::stub(collect_emitted_event, stub_collect_emitted_event)] #[kani::stub(call_user_function, stub_call_user_function)] c11_un_not_b, "C11/eval_expr_with_functions/Unary/Not/Bool/no-panic", (a0: bool), { run_expr(Expr::Unary { op: UnaryOp::Not, expr: Box::new(Expr::Bool(a0)) }) });
vpv_cell!(#[kani::stub(eval_filter_expr, stub_eval_filter_expr)] #[kani::stub(collect_emitted_event, stub_collect_emitted_event)] #[kani::stub(call_user_function, stub_call_user_function)] c11_un_bitnot_i, "C11/eval_expr_with_functions/Unary/BitNot/Int/no-panic", (a0: i64), { run_expr(Expr::Unary { op: UnaryOp::BitNot, expr: Box::new(Expr::Int(a0)) }) });
vpv_cell!(#[kani::stub(eval_filter_expr, stub_eval_filter_expr)] #[kani::stub(collect_emitted_event, stub_collect_emitted_event)] #[kani::stub(call_user_function, stub_call_user_function)] c11_un_not_i, "C11/eval_expr_with_functions/Unary/Not/Int/no-panic", (a0: i64), { run_expr(Expr::Unary { op: UnaryOp::Not, expr: Box::new(Expr::Int(a0)) }) });
vpv_cell!(c11_fn_abs, "C11/eval_builtin_function/abs/no-panic", (k: u8, i: i64, f: f64), { run_builtin("abs", vec![val(k, i, f)]) });
vpv_cell!(c11_fn_sqrt, "C11/eval_builtin_function/sqrt/no-panic", (k: u8, i: i64, f: f64), { run_builtin("sqrt", vec![val(k, i, f)]) });
vpv_cell!(c11_fn_floor, "C11/eval_builtin_function/floor/no-panic", (k: u8, i: i64, f: f64), { run_builtin("floor", vec![val(k, i, f)]) });
vpv_cell!(c11_fn_ceil, "C11/eval_builtin_function/ceil/no-panic", (k: u8, i: i64, f: f64), { run_builtin("ceil", vec![val(k, i, f)]) });
vpv_cell!(c11_fn_round, "C11/eval_builtin_function/round/no-panic", (k: u8, i: i64, f: f64), { run_builtin("round", vec![val(k, i, f)]) });
vpv_cell!(c11_fn_log, "C11/eval_builtin_function/log/no-panic", (k: u8, i: i64, f: f64), { run_builtin("log", vec![val(k, i, f)]) });
vpv_cell!(c11_fn_log10, "C11/eval_builtin_function/log10/no-panic", (k: u8, i: i64, f: f64), { run_builtin("log10", vec![val(k, i, f)]) });
vpv_cell!(c11_fn_exp, "C11/eval_builtin_function/exp/no-panic", (k: u8, i: i64, f: f64), { run_builtin("exp", vec![val(k, i, f)]) });
vpv_cell!(c11_fn_sin, "C11/eval_builtin_function/sin/no-panic", (k: u8, i: i64, f: f64), { run_builtin("sin", vec![val(k, i, f)]) });
vpv_cell!(c11_fn_cos, "C11/eval_builtin_function/cos/no-panic", (k: u8, i: i64, f: f64), { run_builtin("cos", vec![val(k, i, f)]) });
vpv_cell!(c11_fn_is_null, "C11/eval_builtin_function/is_null/no-panic", (k: u8, i: i64, f: f64), { run_builtin("is_null", vec![val(k, i, f)]) });
vpv_cell!(c11_fn_is_int, "C11/eval_builtin_function/is_int/no-panic", (k: u8, i: i64, f: f64), { run_builtin("is_int", vec![val(k, i, f)]) });
vpv_cell!(c11_fn_type_of, "C11/eval_builtin_function/type_of/no-panic", (k: u8, i: i64, f: f64), { run_builtin("type_of", vec![val(k, i, f)]) });
vpv_cell!(c11_fn_pow, "C11/eval_builtin_function/pow/no-panic", (k1: u8, i1: i64, f1: f64, k2: u8, i2: i64, f2: f64), { run_builtin("pow", vec![val(k1, i1, f1), val(k2, i2, f2)]) });
vpv_cell!(c11_fn_min, "C11/eval_builtin_function/min/no-panic", (k1: u8, i1: i64, f1: f64, k2: u8, i2: i64, f2: f64), { run_builtin("min", vec![val(k1, i1, f1), val(k2, i2, f2)]) });
vpv_cell!(c11_fn_max, "C11/eval_builtin_function/max/no-panic", (k1: u8, i1: i64, f1: f64, k2: u8, i2: i64, f2: f64), { run_builtin("max", vec![val(k1, i1, f1), val(k2, i2, f2)]) });
vpv_cell!(#[kani::stub(eval_filter_expr, stub_eval_filter_expr)] #[kani::stub(collect_emitted_event, stub_collect_emitted_event)] #[kani::stub(call_user_function, stub_call_user_function)] c11_bin_eq_scalars, "C11/eval_expr_with_functions/Binary/Eq/Int-Int, Float-Float, Bool-Bool, Int-Float/no-panic", (a: i64, b: i64, x: f64, y: f64, p: bool, q: bool), {
    run_expr(Expr::Binary { op: BinOp::Eq, left: Box::new(Expr::Int(a)), right: Box::new(Expr::Int(b)) })
    && run_expr(Expr::Binary { op: BinOp::Eq, left: Box::new(Expr::Float(x)), right: Box::new(Expr::Float(y)) })
    && run_expr(Expr::Binary { op: BinOp::Eq, left: Box::new(Expr::Bool(p)), right: Box::new(Expr::Bool(q)) })
    && run_expr(Expr::Binary { op: BinOp::Eq, left: Box::new(Expr::Int(a)), right: Box::new(Expr::Float(y)) }) });
vpv_cell!(#[kani::stub(eval_filter_expr, stub_eval_filter_expr)] #[kani::stub(collect_emitted_event, stub_collect_emitted_event)] #[kani::stub(call_user_function, stub_call_user_function)] c11_bin_noteq_scalars, "C11/eval_expr_with_functions/Binary/NotEq/Int-Int, Float-Float, Bool-Bool, Int-Float/no-panic", (a: i64, b: i64, x: f64, y: f64, p: bool, q: bool), {
    run_expr(Expr::Binary { op: BinOp::NotEq, left: Box::new(Expr::Int(a)), right: Box::new(Expr::Int(b)) })
    && run_expr(Expr::Binary { op: BinOp::NotEq, left: Box::new(Expr::Float(x)), right: Box::new(Expr::Float(y)) })
    && run_expr(Expr::Binary { op: BinOp::NotEq, left: Box::new(Expr::Bool(p)), right: Box::new(Expr::Bool(q)) })
    && run_expr(Expr::Binary { op: BinOp::NotEq, left: Box::new(Expr::Int(a)), right: Box::new(Expr::Float(y)) }) });
vpv_cell!(#[kani::stub(eval_filter_expr, stub_eval_filter_expr)] #[kani::stub(collect_emitted_event, stub_collect_emitted_event)] #[kani::stub(call_user_function, stub_call_user_function)] c11_bin_lt_scalars, "C11/eval_expr_with_functions/Binary/Lt/Int-Int, Float-Float, Bool-Bool, Int-Float/no-panic", (a: i64, b: i64, x: f64, y: f64, p: bool, q: bool), {
    run_expr(Expr::Binary { op: BinOp::Lt, left: Box::new(Expr::Int(a)), right: Box::new(Expr::Int(b)) })
    && run_expr(Expr::Binary { op: BinOp::Lt, left: Box::new(Expr::Float(x)), right: Box::new(Expr::Float(y)) })
    && run_expr(Expr::Binary { op: BinOp::Lt, left: Box::new(Expr::Bool(p)), right: Box::new(Expr::Bool(q)) })
    && run_expr(Expr::Binary { op: BinOp::Lt, left: Box::new(Expr::Int(a)), right: Box::new(Expr::Float(y)) }) });
vpv_cell!(#[kani::stub(eval_filter_expr, stub_eval_filter_expr)] #[kani::stub(collect_emitted_event, stub_collect_emitted_event)] #[kani::stub(call_user_function, stub_call_user_function)] c11_bin_le_scalars, "C11/eval_expr_with_functions/Binary/Le/Int-Int, Float-Float, Bool-Bool, Int-Float/no-panic", (a: i64, b: i64, x: f64, y: f64, p: bool, q: bool), {
    run_expr(Expr::Binary { op: BinOp::Le, left: Box::new(Expr::Int(a)), right: Box::new(Expr::Int(b)) })
    && run_expr(Expr::Binary { op: BinOp::Le, left: Box::new(Expr::Float(x)), right: Box::new(Expr::Float(y)) })
    && run_expr(Expr::Binary { op: BinOp::Le, left: Box::new(Expr::Bool(p)), right: Box::new(Expr::Bool(q)) })
    && run_expr(Expr::Binary { op: BinOp::Le, left: Box::new(Expr::Int(a)), right: Box::new(Expr::Float(y)) }) });
vpv_cell!(#[kani::stub(eval_filter_expr, stub_eval_filter_expr)] #[kani::stub(collect_emitted_event, stub_collect_emitted_event)] #[kani::stub(call_user_function, stub_call_user_function)] c11_bin_gt_scalars, "C11/eval_expr_with_functions/Binary/Gt/Int-Int, Float-Float, Bool-Bool, Int-Float/no-panic", (a: i64, b: i64, x: f64, y: f64, p: bool, q: bool), {
    run_expr(Expr::Binary { op: BinOp::Gt, left: Box::new(Expr::Int(a)), right: Box::new(Expr::Int(b)) })
    && run_expr(Expr::Binary { op: BinOp::Gt, left: Box::new(Expr::Float(x)), right: Box::new(Expr::Float(y)) })
    && run_expr(Expr::Binary { op: BinOp::Gt, left: Box::new(Expr::Bool(p)), right: Box::new(Expr::Bool(q)) })
    && run_expr(Expr::Binary { op: BinOp::Gt, left: Box::new(Expr::Int(a)), right: Box::new(Expr::Float(y)) }) });
vpv_cell!(#[kani::stub(eval_filter_expr, stub_eval_filter_expr)] #[kani::stub(collect_emitted_event, stub_collect_emitted_event)] #[kani::stub(call_user_function, stub_call_user_function)] c11_bin_ge_scalars, "C11/eval_expr_with_functions/Binary/Ge/Int-Int, Float-Float, Bool-Bool, Int-Float/no-panic", (a: i64, b: i64, x: f64, y: f64, p: bool, q: bool), {
    run_expr(Expr::Binary { op: BinOp::Ge, left: Box::new(Expr::Int(a)), right: Box::new(Expr::Int(b)) })
    && run_expr(Expr::Binary { op: BinOp::Ge, left: Box::new(Expr::Float(x)), right: Box::new(Expr::Float(y)) })
    && run_expr(Expr::Binary { op: BinOp::Ge, left: Box::new(Expr::Bool(p)), right: Box::new(Expr::Bool(q)) })
    && run_expr(Expr::Binary { op: BinOp::Ge, left: Box::new(Expr::Int(a)), right: Box::new(Expr::Float(y)) }) });
vpv_cell!(#[kani::stub(eval_filter_expr, stub_eval_filter_expr)] #[kani::stub(collect_emitted_event, stub_collect_emitted_event)] #[kani::stub(call_user_function, stub_call_user_function)] c11_bin_in_scalars, "C11/eval_expr_with_functions/Binary/In/Int-Int, Float-Float, Bool-Bool, Int-Float/no-panic", (a: i64, b: i64, x: f64, y: f64, p: bool, q: bool), {
    run_expr(Expr::Binary { op: BinOp::In, left: Box::new(Expr::Int(a)), right: Box::new(Expr::Int(b)) })
    && run_expr(Expr::Binary { op: BinOp::In, left: Box::new(Expr::Float(x)), right: Box::new(Expr::Float(y)) })
    && run_expr(Expr::Binary { op: BinOp::In, left: Box::new(Expr::Bool(p)), right: Box::new(Expr::Bool(q)) })
    && run_expr(Expr::Binary { op: BinOp::In, left: Box::new(Expr::Int(a)), right: Box::new(Expr::Float(y)) }) });
vpv_cell!(#[kani::stub(eval_filter_expr, stub_eval_filter_expr)] #[kani::stub(collect_emitted_event, stub_collect_emitted_event)] #[kani::stub(call_user_function, stub_call_user_function)] c11_bin_notin_scalars, "C11/eval_expr_with_functions/Binary/NotIn/Int-Int, Float-Float, Bool-Bool, Int-Float/no-panic", (a: i64, b: i64, x: f64, y: f64, p: bool, q: bool), {
    run_expr(Expr::Binary { op: BinOp::NotIn, left: Box::new(Expr::Int(a)), right: Box::new(Expr::Int(b)) })
    && run_expr(Expr::Binary { op: BinOp::NotIn, left: Box::new(Expr::Float(x)), right: Box::new(Expr::Float(y)) })
    && run_expr(Expr::Binary { op: BinOp::NotIn, left: Box::new(Expr::Bool(p)), right: Box::new(Expr::Bool(q)) })
    && run_expr(Expr::Binary { op: BinOp::NotIn, left: Box::new(Expr::Int(a)), right: Box::new(Expr::Float(y)) }) });
vpv_cell!(#[kani::stub(eval_filter_expr, stub_eval_filter_expr)] #[kani::stub(collect_emitted_event, stub_collect_emitted_event)] #[kani::stub(call_user_function, stub_call_user_function)] c11_bin_is_scalars, "C11/eval_expr_with_functions/Binary/Is/Int-Int, Float-Float, Bool-Bool, Int-Float/no-panic", (a: i64, b: i64, x: f64, y: f64, p: bool, q: bool), {
    run_expr(Expr::Binary { op: BinOp::Is, left: Box::new(Expr::Int(a)), right: Box::new(Expr::Int(b)) })
    && run_expr(Expr::Binary { op: BinOp::Is, left: Box::new(Expr::Float(x)), right: Box::new(Expr::Float(y)) })
    && run_expr(Expr::Binary { op: BinOp::Is, left: Box::new(Expr::Bool(p)), right: Box::new(Expr::Bool(q)) })
    && run_expr(Expr::Binary { op: BinOp::Is, left: Box::new(Expr::Int(a)), right: Box::new(Expr::Float(y)) }) });
vpv_cell!(#[kani::stub(eval_filter_expr, stub_eval_filter_expr)] #[kani::stub(collect_emitted_event, stub_collect_emitted_event)] #[kani::stub(call_user_function, stub_call_user_function)] c11_bin_and_scalars, "C11/eval_expr_with_functions/Binary/And/Int-Int, Float-Float, Bool-Bool, Int-Float/no-panic", (a: i64, b: i64, x: f64, y: f64, p: bool, q: bool), {
    run_expr(Expr::Binary { op: BinOp::And, left: Box::new(Expr::Int(a)), right: Box::new(Expr::Int(b)) })
    && run_expr(Expr::Binary { op: BinOp::And, left: Box::new(Expr::Float(x)), right: Box::new(Expr::Float(y)) })
    && run_expr(Expr::Binary { op: BinOp::And, left: Box::new(Expr::Bool(p)), right: Box::new(Expr::Bool(q)) })
    && run_expr(Expr::Binary { op: BinOp::And, left: Box::new(Expr::Int(a)), right: Box::new(Expr::Float(y)) }) });
vpv_cell!(#[kani::stub(eval_filter_expr, stub_eval_filter_expr)] #[kani::stub(collect_emitted_event, stub_collect_emitted_event)] #[kani::stub(call_user_function, stub_call_user_function)] c11_bin_or_scalars, "C11/eval_expr_with_functions/Binary/Or/Int-Int, Float-Float, Bool-Bool, Int-Float/no-panic", (a: i64, b: i64, x: f64, y: f64, p: bool, q: bool), {
    run_expr(Expr::Binary { op: BinOp::Or, left: Box::new(Expr::Int(a)), right: Box::new(Expr::Int(b)) })
    && run_expr(Expr::Binary { op: BinOp::Or, left: Box::new(Expr::Float(x)), right: Box::new(Expr::Float(y)) })
    && run_expr(Expr::Binary { op: BinOp::Or, left: Box::new(Expr::Bool(p)), right: Box::new(Expr::Bool(q)) })
    && run_expr(Expr::Binary { op: BinOp::Or, left: Box::new(Expr::Int(a)), right: Box::new(Expr::Float(y)) }) });
vpv_cell!(#[kani::stub(eval_filter_expr, stub_eval_filter_expr)] #[kani::stub(collect_emitted_event, stub_collect_emitted_event)] #[kani::stub(call_user_function, stub_call_user_function)] c11_bin_xor_scalars, "C11/eval_expr_with_functions/Binary/Xor/Int-Int, Float-Float, Bool-Bool, Int-Float/no-panic", (a: i64, b: i64, x: f64, y: f64, p: bool, q: bool), {
    run_expr(Expr::Binary { op: BinOp::Xor, left: Box::new(Expr::Int(a)), right: Box::new(Expr::Int(b)) })
    && run_expr(Expr::Binary { op: BinOp::Xor, left: Box::new(Expr::Float(x)), right: Box::new(Expr::Float(y)) })
    && run_expr(Expr::Binary { op: BinOp::Xor, left: Box::new(Expr::Bool(p)), right: Box::new(Expr::Bool(q)) })
    && run_expr(Expr::Binary { op: BinOp::Xor, left: Box::new(Expr::Int(a)), right: Box::new(Expr::Float(y)) }) });
vpv_cell!(#[kani::stub(eval_filter_expr, stub_eval_filter_expr)] #[kani::stub(collect_emitted_event, stub_collect_emitted_event)] #[kani::stub(call_user_function, stub_call_user_function)] c11_bin_followedby_scalars, "C11/eval_expr_with_functions/Binary/FollowedBy/Int-Int, Float-Float, Bool-Bool, Int-Float/no-panic", (a: i64, b: i64, x: f64, y: f64, p: bool, q: bool), {
    run_expr(Expr::Binary { op: BinOp::FollowedBy, left: Box::new(Expr::Int(a)), right: Box::new(Expr::Int(b)) })
    && run_expr(Expr::Binary { op: BinOp::FollowedBy, left: Box::new(Expr::Float(x)), right: Box::new(Expr::Float(y)) })
    && run_expr(Expr::Binary { op: BinOp::FollowedBy, left: Box::new(Expr::Bool(p)), right: Box::new(Expr::Bool(q)) })
    && run_expr(Expr::Binary { op: BinOp::FollowedBy, left: Box::new(Expr::Int(a)), right: Box::new(Expr::Float(y)) }) });
vpv_cell!(#[kani::stub(eval_filter_expr, stub_eval_filter_expr)] #[kani::stub(collect_emitted_event, stub_collect_emitted_event)] #[kani::stub(call_user_function, stub_call_user_function)] c11_bin_bitand_scalars, "C11/eval_expr_with_functions/Binary/BitAnd/Int-Int, Float-Float, Bool-Bool, Int-Float/no-panic", (a: i64, b: i64, x: f64, y: f64, p: bool, q: bool), {
    run_expr(Expr::Binary { op: BinOp::BitAnd, left: Box::new(Expr::Int(a)), right: Box::new(Expr::Int(b)) })
    && run_expr(Expr::Binary { op: BinOp::BitAnd, left: Box::new(Expr::Float(x)), right: Box::new(Expr::Float(y)) })
    && run_expr(Expr::Binary { op: BinOp::BitAnd, left: Box::new(Expr::Bool(p)), right: Box::new(Expr::Bool(q)) })
    && run_expr(Expr::Binary { op: BinOp::BitAnd, left: Box::new(Expr::Int(a)), right: Box::new(Expr::Float(y)) }) });
vpv_cell!(#[kani::stub(eval_filter_expr, stub_eval_filter_expr)] #[kani::stub(collect_emitted_event, stub_collect_emitted_event)] #[kani::stub(call_user_function, stub_call_user_function)] c11_bin_bitor_scalars, "C11/eval_expr_with_functions/Binary/BitOr/Int-Int, Float-Float, Bool-Bool, Int-Float/no-panic", (a: i64, b: i64, x: f64, y: f64, p: bool, q: bool), {
    run_expr(Expr::Binary { op: BinOp::BitOr, left: Box::new(Expr::Int(a)), right: Box::new(Expr::Int(b)) })
    && run_expr(Expr::Binary { op: BinOp::BitOr, left: Box::new(Expr::Float(x)), right: Box::new(Expr::Float(y)) })
    && run_expr(Expr::Binary { op: BinOp::BitOr, left: Box::new(Expr::Bool(p)), right: Box::new(Expr::Bool(q)) })
    && run_expr(Expr::Binary { op: BinOp::BitOr, left: Box::new(Expr::Int(a)), right: Box::new(Expr::Float(y)) }) });
vpv_cell!(#[kani::stub(eval_filter_expr, stub_eval_filter_expr)] #[kani::stub(collect_emitted_event, stub_collect_emitted_event)] #[kani::stub(call_user_function, stub_call_user_function)] c11_bin_bitxor_scalars, "C11/eval_expr_with_functions/Binary/BitXor/Int-Int, Float-Float, Bool-Bool, Int-Float/no-panic", (a: i64, b: i64, x: f64, y: f64, p: bool, q: bool), {
    run_expr(Expr::Binary { op: BinOp::BitXor, left: Box::new(Expr::Int(a)), right: Box::new(Expr::Int(b)) })
    && run_expr(Expr::Binary { op: BinOp::BitXor, left: Box::new(Expr::Float(x)), right: Box::new(Expr::Float(y)) })
    && run_expr(Expr::Binary { op: BinOp::BitXor, left: Box::new(Expr::Bool(p)), right: Box::new(Expr::Bool(q)) })
    && run_expr(Expr::Binary { op: BinOp::BitXor, left: Box::new(Expr::Int(a)), right: Box::new(Expr::Float(y)) }) });
vpv_cell!(#[kani::stub(eval_filter_expr, stub_eval_filter_expr)] #[kani::stub(collect_emitted_event, stub_collect_emitted_event)] #[kani::stub(call_user_function, stub_call_user_function)] c11_bin_shl_scalars, "C11/eval_expr_with_functions/Binary/Shl/Int-Int, Float-Float, Bool-Bool, Int-Float/no-panic", (a: i64, b: i64, x: f64, y: f64, p: bool, q: bool), {
    run_expr(Expr::Binary { op: BinOp::Shl, left: Box::new(Expr::Int(a)), right: Box::new(Expr::Int(b)) })
    && run_expr(Expr::Binary { op: BinOp::Shl, left: Box::new(Expr::Float(x)), right: Box::new(Expr::Float(y)) })
    && run_expr(Expr::Binary { op: BinOp::Shl, left: Box::new(Expr::Bool(p)), right: Box::new(Expr::Bool(q)) })
    && run_expr(Expr::Binary { op: BinOp::Shl, left: Box::new(Expr::Int(a)), right: Box::new(Expr::Float(y)) }) });
vpv_cell!(#[kani::stub(eval_filter_expr, stub_eval_filter_expr)] #[kani::stub(collect_emitted_event, stub_collect_emitted_event)] #[kani::stub(call_user_function, stub_call_user_function)] c11_bin_shr_scalars, "C11/eval_expr_with_functions/Binary/Shr/Int-Int, Float-Float, Bool-Bool, Int-Float/no-panic", (a: i64, b: i64, x: f64, y: f64, p: bool, q: bool), {
    run_expr(Expr::Binary { op: BinOp::Shr, left: Box::new(Expr::Int(a)), right: Box::new(Expr::Int(b)) })
    && run_expr(Expr::Binary { op: BinOp::Shr, left: Box::new(Expr::Float(x)), right: Box::new(Expr::Float(y)) })
    && run_expr(Expr::Binary { op: BinOp::Shr, left: Box::new(Expr::Bool(p)), right: Box::new(Expr::Bool(q)) })
    && run_expr(Expr::Binary { op: BinOp::Shr, left: Box::new(Expr::Int(a)), right: Box::new(Expr::Float(y)) }) });
vpv_replay_table!(c11_bin_eq_scalars, c11_bin_noteq_scalars, c11_bin_lt_scalars, c11_bin_le_scalars, c11_bin_gt_scalars, c11_bin_ge_scalars, c11_bin_in_scalars, c11_bin_notin_scalars, c11_bin_is_scalars, c11_bin_and_scalars, c11_bin_or_scalars, c11_bin_xor_scalars, c11_bin_followedby_scalars, c11_bin_bitand_scalars, c11_bin_bitor_scalars, c11_bin_bitxor_scalars, c11_bin_shl_scalars, c11_bin_shr_scalars, c11_bin_add_ii, c11_bin_add_if, c11_bin_add_fi, c11_bin_add_ff, c11_bin_sub_ii, c11_bin_sub_if, c11_bin_sub_fi, c11_bin_sub_ff, c11_bin_mul_ii, c11_bin_mul_if, c11_bin_mul_fi, c11_bin_mul_ff, c11_bin_div_ii, c11_bin_div_if, c11_bin_div_fi, c11_bin_div_ff, c11_bin_mod_ii, c11_bin_mod_if, c11_bin_mod_fi, c11_bin_mod_ff, c11_bin_pow_ii, c11_bin_pow_if, c11_bin_pow_fi, c11_bin_pow_ff, c11_bin_add_ss, c11_un_neg_i, c11_un_neg_f, c11_un_not_b, c11_un_bitnot_i, c11_un_not_i, c11_fn_abs, c11_fn_sqrt, c11_fn_floor, c11_fn_ceil, c11_fn_round, c11_fn_log, c11_fn_log10, c11_fn_exp, c11_fn_sin, c11_fn_cos, c11_fn_is_null, c11_fn_is_int, c11_fn_type_of, c11_fn_pow, c11_fn_min, c11_fn_max);
