// C43 — (appended to varpulis-lsp/src/navigation.rs)
// Kani cells: ALL valid UTF-8 documents of <= 3 bytes (symbolic bytes, checked by std::str::from_utf8 — this covers every 1-, 2- and
// 3-byte character, newlines, CR) and EVERY usize offset.
pub fn newlines(s: &str) -> usize { let mut k = 0; for c in s.bytes() { if c == b'\n' { k += 1; } } k }
// Native enumeration cells (bounded stand-ins, DESIGN §2.3): every document of <= 4 characters (<= 5 at the thorough tier: 66 430 documents) over ALPHA (7381 documents; 1-, 2- and
// 3-byte characters, newline, CR) x lines 0..=5 x character columns 0..=6, run natively against the real function.
#[cfg(vpv_replay)]
pub const ALPHA: [char; 9] = ['a', '_', ' ', '\n', '\u{e9}', '1', '.', '(', '\u{4e16}'];
#[cfg(vpv_replay)]
pub fn docs() -> Vec<String> {
    let mut out = vec![String::new()];
    let mut layer = vec![String::new()];
    for _ in 0..(if vpv_thorough() { 5 } else { 4 }) {
        let mut next = Vec::new();
        for d in &layer { for c in ALPHA { let mut e = d.clone(); e.push(c); next.push(e); } }
        out.extend(next.iter().cloned());
        layer = next;
    }
    out.push("\r\n\u{e9}x".to_string());
    out
}
#[cfg(vpv_replay)]
pub fn enum_doc_line_col<F: Fn(&str, u32, u32) -> bool>(f: F) -> bool {
    let mut ok = true; let mut shown = 0;
    for d in docs() { for line in 0..=5u32 { for ch in 0..=6u32 {
        let good = vpv_enum_try(|| format!("document={:?} line={} character={}", d, line, ch), || f(&d, line, ch));
        if !good { ok = false; shown += 1; if shown >= 5 { return false; } }
    } } }
    ok
}

vpv_cell!(#[kani::unwind(6)] c43_byte_offset_to_position, "C43/navigation::byte_offset_to_position/no-panic, line <= #newlines, col <= #bytes (all UTF-8 documents <= 3 bytes, every offset)", (b: [u8; 3], n: u8, p: usize), {
    if n > 3 { return true; }
    match std::str::from_utf8(&b[..n as usize]) {
        Ok(d) => { let (line, col) = byte_offset_to_position(d, p); line <= newlines(d) && col <= d.len() }
        Err(_) => true,
    }
});
vpv_native!(c43_word_at_position, "C43/navigation::word_at_position/no-panic; a returned word is non-empty, made of identifier characters and occurs in the document (native enumeration: 7382 documents x 6 lines x 7 columns)", {
    enum_doc_line_col(|d, line, ch| match word_at_position(d, Position { line, character: ch }) {
        Some(w) => !w.is_empty() && d.contains(&w) && w.chars().all(|c| c.is_alphanumeric() || c == '_'),
        None => true,
    })
});

// span_to_location: every reported range lies within the document — start <= end, each line exists, each column is at most the number of characters
// of its line (native enumeration: the same documents x every span whose ends are character boundaries)
vpv_native!(c43_span_to_location, "C43/navigation::span_to_location/the reported range lies within the document: start <= end, lines exist, columns <= characters of the line (native enumeration: 7382 documents x every span on character boundaries)", {
    let uri = Url::parse("file:///t.vpl").unwrap();
    let mut ok = true; let mut shown = 0;
    for d in docs() {
        let mut cuts: Vec<usize> = d.char_indices().map(|(i, _)| i).collect(); cuts.push(d.len());
        // line lengths in characters; a document ending in LF has a last, empty line
        let lines: Vec<usize> = d.split('\n').map(|l| l.chars().count()).collect();
        for &a in &cuts { for &b in &cuts { if a <= b {
            let good = vpv_enum_try(|| format!("document={:?} span={}..{}", d, a, b), || {
                let loc = span_to_location(&d, Span { start: a, end: b }, &uri);
                let (s, e) = (loc.range.start, loc.range.end);
                let inside = |p: Position| (p.line as usize) < lines.len() && (p.character as usize) <= lines[p.line as usize];
                inside(s) && inside(e) && (s.line, s.character) <= (e.line, e.character)
            });
            if !good { ok = false; shown += 1; if shown >= 3 { return false; } }
        } } }
    }
    ok
});

// the same helper over the larger native document set and EVERY byte offset 0..=len+1 (also offsets inside a multi-byte character)
vpv_native!(c43_byte_offset_to_position_native, "C43/navigation::byte_offset_to_position/no-panic, line <= #newlines, col <= #characters for every byte offset, also inside a multi-byte character (native enumeration: 7382 documents x offsets 0..=len+1)", {
    let mut ok = true; let mut shown = 0;
    for d in docs() { for off in 0..=d.len() + 1 {
        let good = vpv_enum_try(|| format!("document={:?} byte offset={}", d, off), || { let (line, col) = byte_offset_to_position(&d, off); line <= d.matches('\n').count() && col <= d.chars().count() });
        if !good { ok = false; shown += 1; if shown >= 3 { return false; } }
    } }
    ok
});
vpv_replay_table!(c43_byte_offset_to_position, c43_word_at_position, c43_span_to_location, c43_byte_offset_to_position_native);
