// C43 — (appended to varpulis-lsp/src/navigation.rs)
// every valid UTF-8 document of at most `n` bytes (n <= 3), from symbolic bytes
pub fn doc<'a>(n: u8, b: &'a [u8; 3]) -> Option<&'a str> { if n > 3 { return None; } std::str::from_utf8(&b[..n as usize]).ok() }
pub fn newlines(s: &str) -> usize { let mut k = 0; for c in s.bytes() { if c == b'\n' { k += 1; } } k }

vpv_cell!(#[kani::unwind(8)] c43_byte_offset_to_position, "C43/navigation::byte_offset_to_position/no-panic, line <= #newlines, col <= #bytes (all UTF-8 docs <= 2 bytes, every offset)",
  (n: u8, b: [u8; 3], pos: u8), {
    if n > 2 || pos > 4 { return true; }
    let Some(d) = doc(n, &b) else { return true; };
    let (line, col) = byte_offset_to_position(d, pos as usize);
    line <= newlines(d) && col <= d.len() });

vpv_cell!(#[kani::unwind(24)] c43_word_at_position, "C43/navigation::word_at_position/no-panic; a returned word is non-empty and not longer than the document (all UTF-8 docs <= 2 bytes)",
  (n: u8, b: [u8; 3], line: u8, ch: u8), {
    if n > 2 || line > 2 || ch > 4 { return true; }
    let Some(d) = doc(n, &b) else { return true; };
    let w = word_at_position(d, Position { line: line as u32, character: ch as u32 });
    let ok = match &w { Some(s) => !s.is_empty() && s.len() <= d.len(), None => true };
    std::mem::forget(w);
    ok });

vpv_replay_table!(c43_byte_offset_to_position, c43_word_at_position);
