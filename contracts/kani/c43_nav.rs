// C43 — (appended to varpulis-lsp/src/navigation.rs)
// shared by the three C43 modules: bounded documents over a 6-character alphabet incl. newline and a 2-byte character
pub const ALPHA: [char; 6] = ['a', '_', ' ', '\n', 'é', '1'];
pub fn mkdoc(n: u8, c: [u8; 3]) -> String {
    let mut s = String::new();
    let mut i = 0;
    while i < 3 { if (i as u8) < n { s.push(ALPHA[(c[i] % 6) as usize]); } i += 1; }
    s
}
pub fn newlines(s: &str) -> usize { let mut k = 0; for ch in s.chars() { if ch == '\n' { k += 1; } } k }
pub fn nchars(s: &str) -> usize { let mut k = 0; for _ in s.chars() { k += 1; } k }


vpv_cell!(#[kani::unwind(8)] c43_byte_offset_to_position, "C43/navigation::byte_offset_to_position/no-panic, line <= #newlines, col <= #chars (docs <= 2 chars)",
  (n: u8, c: [u8; 3], pos: u8), {
    if n > 2 { return true; }
    let doc = mkdoc(n, c);
    if pos as usize > doc.len() + 1 { std::mem::forget(doc); return true; }
    let (line, col) = byte_offset_to_position(&doc, pos as usize);
    let ok = line <= newlines(&doc) && col <= nchars(&doc);
    std::mem::forget(doc);
    ok });

vpv_cell!(#[kani::unwind(24)] c43_word_at_position, "C43/navigation::word_at_position/no-panic; a returned word is non-empty and not longer than the document (docs <= 2 chars)",
  (n: u8, c: [u8; 3], line: u8, ch: u8), {
    if n > 2 || line > 3 || ch > 5 { return true; }
    let doc = mkdoc(n, c);
    let w = word_at_position(&doc, Position { line: line as u32, character: ch as u32 });
    let ok = match &w { Some(s) => !s.is_empty() && nchars(s) <= nchars(&doc), None => true };
    std::mem::forget(w); std::mem::forget(doc);
    ok });

vpv_replay_table!(c43_byte_offset_to_position, c43_word_at_position);
