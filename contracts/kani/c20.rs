// C20 — checkpoints survive serialisation: the value conversion layer (appended to varpulis-runtime/src/persistence.rs)
// Contract: serializable_to_value(value_to_serializable(&v)) == v  (Value::eq, and bit-for-bit for floats), and the
// intermediate SerializableValue has the matching variant and payload.
use varpulis_core::Value as V;

pub fn roundtrip(v: &V) -> V { serializable_to_value(value_to_serializable(v)) }
pub fn bits_eq(a: &V, b: &V) -> bool {
    match (a, b) { (V::Float(x), V::Float(y)) => x.to_bits() == y.to_bits(), _ => a == b }
}

vpv_cell!(c20_int, "C20/value-roundtrip/Int", (i: i64), {
    matches!(value_to_serializable(&V::Int(i)), SerializableValue::Int(x) if x == i) && matches!(roundtrip(&V::Int(i)), V::Int(x) if x == i) });
vpv_cell!(c20_float, "C20/value-roundtrip/Float (incl. NaN payloads, +-inf, -0.0: bit-exact)", (f: f64), {
    matches!(value_to_serializable(&V::Float(f)), SerializableValue::Float(x) if x.to_bits() == f.to_bits())
        && matches!(roundtrip(&V::Float(f)), V::Float(x) if x.to_bits() == f.to_bits()) });
vpv_cell!(c20_bool, "C20/value-roundtrip/Bool", (b: bool), {
    matches!(value_to_serializable(&V::Bool(b)), SerializableValue::Bool(x) if x == b) && matches!(roundtrip(&V::Bool(b)), V::Bool(x) if x == b) });
vpv_cell!(c20_null, "C20/value-roundtrip/Null", (), {
    matches!(value_to_serializable(&V::Null), SerializableValue::Null) && matches!(roundtrip(&V::Null), V::Null) });
vpv_cell!(c20_timestamp, "C20/value-roundtrip/Timestamp", (t: i64), {
    matches!(value_to_serializable(&V::Timestamp(t)), SerializableValue::Timestamp(x) if x == t) && matches!(roundtrip(&V::Timestamp(t)), V::Timestamp(x) if x == t) });
vpv_cell!(c20_duration, "C20/value-roundtrip/Duration", (d: u64), {
    matches!(value_to_serializable(&V::Duration(d)), SerializableValue::Duration(x) if x == d) && matches!(roundtrip(&V::Duration(d)), V::Duration(x) if x == d) });
vpv_cell!(#[kani::unwind(8)] c20_str, "C20/value-roundtrip/Str (2 bytes: ASCII pair or one 2-byte UTF-8 char)", (a: u8, b: u8), {
    let s: String = if a < 0x80 && b < 0x80 { let mut s = String::new(); s.push(a as char); s.push(b as char); s }
                    else { char::from_u32(0x80 + (((a as u32) << 3 | (b as u32) >> 5) % 0x780)).map(|c| c.to_string()).unwrap_or_default() };
    let v = V::Str(s.clone().into());
    let r = roundtrip(&v);
    let ok = matches!(&r, V::Str(x) if **x == *s);
    std::mem::forget(v); std::mem::forget(r); std::mem::forget(s);
    ok });
vpv_cell!(#[kani::unwind(6)] c20_array2, "C20/value-roundtrip/Array[Float, Int]", (f: f64, i: i64), {
    let v = V::array(vec![V::Float(f), V::Int(i)]);
    let r = roundtrip(&v);
    let ok = match &r { V::Array(a) => a.len() == 2 && bits_eq(&a[0], &V::Float(f)) && bits_eq(&a[1], &V::Int(i)), _ => false };
    std::mem::forget(v); std::mem::forget(r);
    ok });
vpv_cell!(#[kani::unwind(6)] c20_array_empty, "C20/value-roundtrip/Array[]", (), {
    let v = V::array(vec![]);
    let r = roundtrip(&v);
    let ok = matches!(&r, V::Array(a) if a.is_empty());
    std::mem::forget(v); std::mem::forget(r);
    ok });
vpv_replay_table!(c20_int, c20_float, c20_bool, c20_null, c20_timestamp, c20_duration, c20_str, c20_array2, c20_array_empty);
