// C20 — checkpoints survive serialisation: the value conversion layer (appended to varpulis-runtime/src/persistence.rs)
// Contract: serializable_to_value(value_to_serializable(&v)) == v  (Value::eq, and bit-for-bit for floats), and the
// intermediate SerializableValue has the matching variant and payload.
use varpulis_core::Value as V;

pub fn roundtrip(v: &V) -> V { serializable_to_value(value_to_serializable(v)) }
pub fn bits_eq(a: &V, b: &V) -> bool {
    match (a, b) { (V::Float(x), V::Float(y)) => x.to_bits() == y.to_bits(), _ => a == b }
}

vpv_cell!(c20_int, "C20/value-roundtrip/Int", (i: i64), {
    matches!(value_to_serializable(&V::Int(i)), SerializableValue::Int(x) if x == i) && matches!(roundtrip(&V::Int(i)), V::Int(x) if x == i) });
vpv_cell!(c20_float, "C20/value-roundtrip/Float (incl. NaN payloads, +-inf, -0.0: bit-exact)", (f: f64), {
    matches!(value_to_serializable(&V::Float(f)), SerializableValue::Float(x) if x.to_bits() == f.to_bits())
        && matches!(roundtrip(&V::Float(f)), V::Float(x) if x.to_bits() == f.to_bits()) });
vpv_cell!(c20_bool, "C20/value-roundtrip/Bool", (b: bool), {
    matches!(value_to_serializable(&V::Bool(b)), SerializableValue::Bool(x) if x == b) && matches!(roundtrip(&V::Bool(b)), V::Bool(x) if x == b) });
vpv_cell!(c20_null, "C20/value-roundtrip/Null", (), {
    matches!(value_to_serializable(&V::Null), SerializableValue::Null) && matches!(roundtrip(&V::Null), V::Null) });
vpv_cell!(c20_timestamp, "C20/value-roundtrip/Timestamp", (t: i64), {
    matches!(value_to_serializable(&V::Timestamp(t)), SerializableValue::Timestamp(x) if x == t) && matches!(roundtrip(&V::Timestamp(t)), V::Timestamp(x) if x == t) });
vpv_cell!(c20_duration, "C20/value-roundtrip/Duration", (d: u64), {
    matches!(value_to_serializable(&V::Duration(d)), SerializableValue::Duration(x) if x == d) && matches!(roundtrip(&V::Duration(d)), V::Duration(x) if x == d) });
vpv_cell!(#[kani::unwind(8)] c20_str, "C20/value-roundtrip/Str (2 bytes: ASCII pair or one 2-byte UTF-8 char)", (a: u8, b: u8), {
    let s: String = if a < 0x80 && b < 0x80 { let mut s = String::new(); s.push(a as char); s.push(b as char); s }
                    else { char::from_u32(0x80 + (((a as u32) << 3 | (b as u32) >> 5) % 0x780)).map(|c| c.to_string()).unwrap_or_default() };
    let v = V::Str(s.clone().into());
    let r = roundtrip(&v);
    let ok = matches!(&r, V::Str(x) if **x == *s);
    std::mem::forget(v); std::mem::forget(r); std::mem::forget(s);
    ok });
vpv_cell!(#[kani::unwind(6)] c20_array2, "C20/value-roundtrip/Array[Float, Int]", (f: f64, i: i64), {
    let v = V::array(vec![V::Float(f), V::Int(i)]);
    let r = roundtrip(&v);
    let ok = match &r { V::Array(a) => a.len() == 2 && bits_eq(&a[0], &V::Float(f)) && bits_eq(&a[1], &V::Int(i)), _ => false };
    std::mem::forget(v); std::mem::forget(r);
    ok });
vpv_cell!(#[kani::unwind(6)] c20_array_empty, "C20/value-roundtrip/Array[]", (), {
    let v = V::array(vec![]);
    let r = roundtrip(&v);
    let ok = matches!(&r, V::Array(a) if a.is_empty());
    std::mem::forget(v); std::mem::forget(r);
    ok });

// ---- Event <-> SerializableEvent, the JSON codec with format auto-detection, and run checkpoints: BOUNDED STAND-INS (native enumeration).
// These go through serde, HashMap/IndexMap insertion and chrono — outside CBMC's reach (measured) and outside Verus.
#[cfg(vpv_replay)]
pub fn c20_values() -> Vec<(&'static str, V)> {
    let mut m = varpulis_core::value::FxIndexMap::default();
    m.insert(std::sync::Arc::<str>::from("k\u{e9}"), V::Int(-7));
    m.insert(std::sync::Arc::<str>::from("inner"), V::array(vec![V::Null, V::Bool(true)]));
    vec![("int", V::Int(i64::MIN)), ("float", V::Float(1.5)), ("neg-zero", V::Float(-0.0)), ("bool", V::Bool(true)), ("null", V::Null),
         ("unicode-str", V::Str("caf\u{e9} \u{4e16}\u{754c} \"q\" \\ \n".into())), ("empty-str", V::Str("".into())),
         ("timestamp", V::Timestamp(-1_500_000_001)), ("duration", V::Duration(u64::MAX)),
         ("nested-array", V::array(vec![V::Int(1), V::array(vec![V::Float(2.5), V::Str("x".into())]), V::array(vec![])])),
         ("map", V::map(m))]
}
#[cfg(vpv_replay)]
pub fn c20_nonfinite() -> Vec<(&'static str, V)> {
    vec![("NaN", V::Float(f64::NAN)), ("NaN with the sign bit set", V::Float(f64::from_bits(0xfff8_0000_0000_0000))), ("NaN with a payload", V::Float(f64::from_bits(0x7ff8_0000_0000_beef))),
         ("+inf", V::Float(f64::INFINITY)), ("-inf", V::Float(f64::NEG_INFINITY))]
}
#[cfg(vpv_replay)]
pub fn c20_same_event(a: &Event, b: &Event) -> bool {
    a.event_type == b.event_type && a.timestamp == b.timestamp && a.data.len() == b.data.len()
        && a.data.iter().all(|(k, v)| match b.data.get(k) { Some(w) => bits_eq(v, w) || (matches!((v, w), (V::Float(x), V::Float(y)) if x.is_nan() && y.is_nan())), None => false })
}
#[cfg(vpv_replay)]
pub fn c20_events(vals: &[(&'static str, V)], stamps: &[(i64, u32)]) -> Vec<(String, Event)> {
    let mut out = Vec::new();
    for ty in ["E", "\u{e9}v\u{e9}nement"] { for (secs, nanos) in stamps {
        let ts = chrono::DateTime::from_timestamp(*secs, *nanos).unwrap();
        out.push((format!("type={:?} t=({}s,{}ns) no fields", ty, secs, nanos), Event::new(ty).with_timestamp(ts)));
        for (n1, v1) in vals {
            // payload fields whose NAMES collide with the serialised form's own keys
            out.push((format!("type={:?} t=({}s,{}ns) fields timestamp_ms={} event_type={} fields={}", ty, secs, nanos, n1, n1, n1),
                      Event::new(ty).with_timestamp(ts).with_field("timestamp_ms", v1.clone()).with_field("event_type", v1.clone()).with_field("fields", v1.clone())));
            out.push((format!("type={:?} t=({}s,{}ns) field a={}", ty, secs, nanos, n1), Event::new(ty).with_timestamp(ts).with_field("a", v1.clone())));
            for (n2, v2) in vals { out.push((format!("type={:?} t=({}s,{}ns) fields a={} b\u{e9}={}", ty, secs, nanos, n1, n2), Event::new(ty).with_timestamp(ts).with_field("a", v1.clone()).with_field("b\u{e9}", v2.clone()))); }
        }
    } }
    out
}
/// whole-millisecond time stamps before and after the epoch
#[cfg(vpv_replay)] pub const C20_MS_STAMPS: [(i64, u32); 5] = [(0, 0), (0, 1_000_000), (-1, 999_000_000), (-2, 500_000_000), (1_700_000_000, 123_000_000)];
/// time stamps with sub-millisecond precision
#[cfg(vpv_replay)] pub const C20_SUBMS_STAMPS: [(i64, u32); 3] = [(0, 500_000), (1_700_000_000, 123_456_789), (-1, 999_999_999)];
#[cfg(vpv_replay)]
pub fn c20_enum(events: Vec<(String, Event)>, f: impl Fn(&Event) -> bool) -> bool {
    let mut ok = true; let mut shown = 0;
    for (label, e) in events { let good = vpv_enum_try(|| label.clone(), || f(&e)); if !good { ok = false; shown += 1; if shown >= 3 { return false; } } }
    ok
}
#[cfg(vpv_replay)]
pub fn c20_se_eq(a: &SerializableEvent, b: &SerializableEvent) -> bool { a.event_type == b.event_type && a.timestamp_ms == b.timestamp_ms && a.fields == b.fields }
#[cfg(vpv_replay)]
pub fn c20_via_json(e: &Event) -> Option<Event> {
    let se = SerializableEvent::from(e);
    let bytes = crate::codec::serialize(&se, crate::codec::CheckpointFormat::Json).ok()?;
    let back: SerializableEvent = crate::codec::deserialize(&bytes).ok()?;
    Some(Event::from(back))
}
vpv_native!(c20_event_conversion, "C20/Event<->SerializableEvent/restored event equals the original (native enumeration: 2 event types x 5 whole-millisecond time stamps incl. pre-epoch x <= 2 fields over 11 values incl. nested arrays/maps, unicode)", {
    c20_enum(c20_events(&c20_values(), &C20_MS_STAMPS), |e| c20_same_event(e, &Event::from(SerializableEvent::from(e)))) });
vpv_native!(c20_event_conversion_nonfinite, "C20/Event<->SerializableEvent/NaN and infinite field values survive the conversion (native enumeration)", {
    c20_enum(c20_events(&c20_nonfinite(), &C20_MS_STAMPS[..2]), |e| c20_same_event(e, &Event::from(SerializableEvent::from(e)))) });
vpv_native!(c20_event_submillisecond_timestamp, "C20/Event<->SerializableEvent/time stamps with sub-millisecond precision are restored exactly (native enumeration: 3 time stamps)", {
    c20_enum(c20_events(&c20_values()[..2], &C20_SUBMS_STAMPS), |e| c20_same_event(e, &Event::from(SerializableEvent::from(e)))) });
vpv_native!(c20_json_codec, "C20/codec::serialize(Json)+deserialize (auto-detect)/an event written as JSON is read back equal (native enumeration: same events as the conversion cell)", {
    c20_enum(c20_events(&c20_values(), &C20_MS_STAMPS), |e| match c20_via_json(e) { Some(b) => c20_same_event(e, &b), None => false }) });
vpv_native!(c20_json_codec_nonfinite, "C20/codec::serialize(Json)+deserialize/NaN and infinite field values can be written and read back (native enumeration)", {
    c20_enum(c20_events(&c20_nonfinite(), &C20_MS_STAMPS[..2]), |e| match c20_via_json(e) { Some(b) => c20_same_event(e, &b), None => false }) });
vpv_native!(c20_run_checkpoint_kleene, "C20/RunCheckpoint via the JSON codec/kleene_events None, Some([]) and Some([e..]) are read back as written (native enumeration)", {
    let ev = SerializableEvent::from(&Event::new("B").with_timestamp(chrono::DateTime::from_timestamp(5, 0).unwrap()).with_field("v", 1i64));
    let mut ok = true;
    for (label, k) in [("None", None), ("Some([])", Some(Vec::new())), ("Some([e])", Some(vec![ev.clone()])), ("Some([e,e])", Some(vec![ev.clone(), ev.clone()]))] {
        let good = vpv_enum_try(|| format!("kleene_events={}", label), || {
            let rc = RunCheckpoint { current_state: 1, stack: vec![StackEntryCheckpoint { event: ev.clone(), alias: Some(String::from("a")) }], captured: HashMap::new(),
                event_time_started_at_ms: Some(-5), event_time_deadline_ms: None, partition_key: Some(SerializableValue::Int(3)), invalidated: false,
                pending_negation_count: 0, kleene_events: k.clone() };
            let bytes = match crate::codec::serialize(&rc, crate::codec::CheckpointFormat::Json) { Ok(b) => b, Err(_) => return false };
            let back: RunCheckpoint = match crate::codec::deserialize(&bytes) { Ok(b) => b, Err(_) => return false };
            (match (&back.kleene_events, &k) { (None, None) => true, (Some(x), Some(y)) => x.len() == y.len() && x.iter().zip(y.iter()).all(|(p, q)| c20_se_eq(p, q)), _ => false }) && back.current_state == 1 && back.stack.len() == 1 && c20_se_eq(&back.stack[0].event, &ev) && back.event_time_started_at_ms == Some(-5)
                && back.partition_key == Some(SerializableValue::Int(3))
        });
        ok = ok && good;
    }
    ok
});
vpv_replay_table!(c20_int, c20_float, c20_bool, c20_null, c20_timestamp, c20_duration, c20_str, c20_array2, c20_array_empty, c20_event_conversion, c20_event_conversion_nonfinite, c20_event_submillisecond_timestamp, c20_json_codec, c20_json_codec_nonfinite, c20_run_checkpoint_kleene);
