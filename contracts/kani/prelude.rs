// ---- vpv prelude (textually included at the top of every appended harness module) ----
// Everything here is verification machinery, none of it is varpulis code.
//
// A *cell* is one named obligation: a function `body(args) -> bool` over typed inputs that
// calls the real code and returns whether the contract held.  The same `body` is
//   * proved under Kani:   h() { args = kani::any(); kani::assert(body(args), OBL) }
//   * replayed natively:   replay(src) { args = src.take(); body(args) }   (cfg vpv_replay)
// so a counterexample found by CBMC is re-run against the same real functions.

#[allow(unused_macros)]
macro_rules! vpv_cell {
    ($(#[$attr:meta])* $m:ident, $obl:literal, ($($a:ident : $t:ty),*), $body:block) => {
        #[allow(non_snake_case, unused_imports, unused_variables, unused_mut, dead_code)]
        pub mod $m {
            use super::*;
            pub const OBL: &str = $obl;
            #[allow(clippy::all)]
            pub fn body($($a: $t),*) -> bool $body
            #[cfg(kani)]
            #[kani::proof]
            $(#[$attr])*
            pub fn h() {
                $(let $a: $t = <$t as VpvAny>::vpv_any();)*
                let ok = body($($a),*);
                kani::assert(ok, $obl);
                kani::cover!(true, "vpv-reach");
            }
            #[cfg(vpv_replay)]
            pub fn replay(src: &mut ReplaySrc) -> bool {
                $(let $a: $t = <$t as VpvTake>::vpv_take(src);)*
                $(println!("  input {} = {:?}", stringify!($a), $a);)*
                body($($a),*)
            }
        }
    };
}

#[cfg(kani)]
pub trait VpvAny { fn vpv_any() -> Self; }
#[cfg(kani)]
macro_rules! vpv_any_prim { ($($t:ty),*) => { $(impl VpvAny for $t { fn vpv_any() -> Self { kani::any() } })* } }
#[cfg(kani)]
vpv_any_prim!(i64, u64, i32, u32, u16, u8, i8, usize, f64, bool, char);
#[cfg(kani)]
impl<const N: usize> VpvAny for [u8; N] { fn vpv_any() -> Self { kani::any() } }

#[cfg(vpv_replay)]
pub struct ReplaySrc { pub vals: Vec<Vec<u8>>, pub pos: usize }
#[cfg(vpv_replay)]
impl ReplaySrc {
    pub fn from_env() -> (String, ReplaySrc) {
        let spec = std::env::var("VPV_REPLAY").expect("VPV_REPLAY=<cell>:<hex>,<hex>,...");
        let (cell, rest) = spec.split_once(':').expect("cell:hex,...");
        let vals = rest.split(',').filter(|s| !s.is_empty()).map(|h| {
            (0..h.len() / 2).map(|i| u8::from_str_radix(&h[2 * i..2 * i + 2], 16).unwrap()).collect()
        }).collect();
        (cell.to_string(), ReplaySrc { vals, pos: 0 })
    }
    pub fn next(&mut self, n: usize) -> Vec<u8> {
        let mut v = self.vals.get(self.pos).cloned().unwrap_or_default();
        self.pos += 1;
        v.resize(n, 0);
        v
    }
}
#[cfg(vpv_replay)]
pub trait VpvTake { fn vpv_take(s: &mut ReplaySrc) -> Self; }
#[cfg(vpv_replay)]
macro_rules! vpv_take_num { ($($t:ty, $n:expr);*) => { $(impl VpvTake for $t {
    fn vpv_take(s: &mut ReplaySrc) -> Self { let b = s.next($n); let mut a = [0u8; $n]; a.copy_from_slice(&b); <$t>::from_le_bytes(a) } })* } }
#[cfg(vpv_replay)]
vpv_take_num!(i64, 8; u64, 8; i32, 4; u32, 4; u16, 2; u8, 1; i8, 1; usize, 8; f64, 8);
#[cfg(vpv_replay)]
impl VpvTake for bool { fn vpv_take(s: &mut ReplaySrc) -> Self { s.next(1)[0] & 1 == 1 } }
#[cfg(vpv_replay)]
impl VpvTake for char { fn vpv_take(s: &mut ReplaySrc) -> Self { let b = s.next(4); char::from_u32(u32::from_le_bytes([b[0], b[1], b[2], b[3]])).unwrap_or('?') } }
#[cfg(vpv_replay)]
impl<const N: usize> VpvTake for [u8; N] { fn vpv_take(s: &mut ReplaySrc) -> Self { let b = s.next(N); let mut a = [0u8; N]; a.copy_from_slice(&b); a } }


/// A *native enumeration cell* (bounded stand-in, never counted as proved): `body() -> bool` enumerates a stated finite input
/// space and calls the real code natively (cfg vpv_replay build of the scratch copy).  No Kani harness is generated for it.
/// `vpv_enum_try(label, f)` runs one input, turning a panic of the real code into `false` and printing the failing input.
#[allow(unused_macros)]
macro_rules! vpv_native {
    ($m:ident, $obl:literal, $body:block) => {
        #[allow(non_snake_case, unused_imports, unused_variables, unused_mut, dead_code)]
        pub mod $m {
            use super::*;
            pub const OBL: &str = $obl;
            #[cfg(vpv_replay)]
            pub fn body() -> bool $body
            #[cfg(vpv_replay)]
            pub fn replay(_src: &mut ReplaySrc) -> bool { body() }
        }
    };
}
/// the thorough tier enlarges the enumerated input spaces of native cells (the bound actually used is printed by the cell)
#[cfg(vpv_replay)]
pub fn vpv_thorough() -> bool { std::env::var("VPV_TIER").map(|t| t == "thorough").unwrap_or(false) }
#[cfg(vpv_replay)]
pub fn vpv_enum_try<L: Fn() -> String, F: FnOnce() -> bool>(label: L, f: F) -> bool {
    match std::panic::catch_unwind(std::panic::AssertUnwindSafe(f)) {
        Ok(true) => true,
        Ok(false) => { println!("  input {} -> contract false", label()); false }
        Err(e) => {
            let msg = e.downcast_ref::<String>().cloned().or_else(|| e.downcast_ref::<&str>().map(|s| s.to_string())).unwrap_or_default();
            println!("  input {} -> real code panicked: {}", label(), msg);
            false
        }
    }
}

/// Replay entry point: one `#[test]` per appended module, generated by `vpv_replay_table!`.
#[allow(unused_macros)]
macro_rules! vpv_replay_table {
    ($($m:ident),* $(,)?) => {
        #[cfg(vpv_replay)]
        #[test]
        fn vpv_replay() {
            let (cell, mut src) = ReplaySrc::from_env();
            $(if cell == stringify!($m) {
                println!("REPLAY cell={} obligation={}", cell, $m::OBL);
                let r = std::panic::catch_unwind(std::panic::AssertUnwindSafe(|| $m::replay(&mut src)));
                match r {
                    Ok(true) => println!("REPLAY-RESULT holds"),
                    Ok(false) => println!("REPLAY-RESULT violated (contract returned false on the real code)"),
                    Err(e) => {
                        let msg = e.downcast_ref::<String>().cloned().or_else(|| e.downcast_ref::<&str>().map(|s| s.to_string())).unwrap_or_default();
                        println!("REPLAY-RESULT violated (real code panicked: {})", msg)
                    }
                }
                return;
            })*
            panic!("unknown cell {}", cell);
        }
    };
}
// ---- end of vpv prelude ----
