// C43 — language-server helpers never crash and report positions inside the document (appended to varpulis-lsp/src/diagnostics.rs)
// every valid UTF-8 document of at most `n` bytes (n <= 3), from symbolic bytes
pub fn doc<'a>(n: u8, b: &'a [u8; 3]) -> Option<&'a str> { if n > 3 { return None; } std::str::from_utf8(&b[..n as usize]).ok() }
pub fn newlines(s: &str) -> usize { let mut k = 0; for c in s.bytes() { if c == b'\n' { k += 1; } } k }

vpv_cell!(#[kani::unwind(8)] c43_position_to_line_col, "C43/diagnostics::position_to_line_col/no-panic, line <= #newlines, col <= #bytes (all UTF-8 docs <= 2 bytes, every offset)",
  (n: u8, b: [u8; 3], pos: u8), {
    if n > 2 || pos > 4 { return true; }
    let Some(d) = doc(n, &b) else { return true; };
    let (line, col) = position_to_line_col(d, pos as usize);
    line <= newlines(d) && col <= d.len() });

vpv_cell!(#[kani::unwind(8)] c43_position_to_line_col_len3__thorough, "C43/diagnostics::position_to_line_col/no-panic, line <= #newlines, col <= #bytes (all UTF-8 docs <= 3 bytes)",
  (n: u8, b: [u8; 3], pos: u8), {
    if n > 3 || pos > 5 { return true; }
    let Some(d) = doc(n, &b) else { return true; };
    let (line, col) = position_to_line_col(d, pos as usize);
    line <= newlines(d) && col <= d.len() });

// column as reported by the parser: a CHARACTER column (0-based here), anywhere from 0 to just past the line
vpv_cell!(#[kani::unwind(24)] c43_error_end_column, "C43/diagnostics::get_error_end_column/no-panic and end > start (all UTF-8 docs <= 2 bytes incl. one 2-byte char)",
  (n: u8, b: [u8; 3], line: u8, col: u8), {
    if n > 2 || line > 2 || col > 3 { return true; }
    let Some(d) = doc(n, &b) else { return true; };
    get_error_end_column(d, line as usize, col as usize) > col as usize });

vpv_replay_table!(c43_position_to_line_col, c43_position_to_line_col_len3__thorough, c43_error_end_column);
