// C43 — language-server helpers never crash and report positions inside the document (appended to varpulis-lsp/src/diagnostics.rs)
// shared by the three C43 modules: bounded documents over a 6-character alphabet incl. newline and a 2-byte character
pub const ALPHA: [char; 6] = ['a', '_', ' ', '\n', 'é', '1'];
pub fn mkdoc(n: u8, c: [u8; 3]) -> String {
    let mut s = String::new();
    let mut i = 0;
    while i < 3 { if (i as u8) < n { s.push(ALPHA[(c[i] % 6) as usize]); } i += 1; }
    s
}
pub fn newlines(s: &str) -> usize { let mut k = 0; for ch in s.chars() { if ch == '\n' { k += 1; } } k }
pub fn nchars(s: &str) -> usize { let mut k = 0; for _ in s.chars() { k += 1; } k }


vpv_cell!(#[kani::unwind(8)] c43_position_to_line_col, "C43/diagnostics::position_to_line_col/no-panic, line <= #newlines, col <= #chars (docs <= 2 chars)",
  (n: u8, c: [u8; 3], pos: u8), {
    if n > 2 { return true; }
    let doc = mkdoc(n, c);
    if pos as usize > doc.len() + 1 { std::mem::forget(doc); return true; }
    let (line, col) = position_to_line_col(&doc, pos as usize);
    let ok = line <= newlines(&doc) && col <= nchars(&doc);
    std::mem::forget(doc);
    ok });

vpv_cell!(#[kani::unwind(8)] c43_position_to_line_col_len3__thorough, "C43/diagnostics::position_to_line_col/no-panic, line <= #newlines, col <= #chars (docs <= 3 chars)",
  (n: u8, c: [u8; 3], pos: u8), {
    if n > 3 { return true; }
    let doc = mkdoc(n, c);
    if pos as usize > doc.len() + 1 { std::mem::forget(doc); return true; }
    let (line, col) = position_to_line_col(&doc, pos as usize);
    let ok = line <= newlines(&doc) && col <= nchars(&doc);
    std::mem::forget(doc);
    ok });

// column as reported by the parser: a CHARACTER column (0-based here), anywhere from 0 to just past the line
vpv_cell!(#[kani::unwind(24)] c43_error_end_column, "C43/diagnostics::get_error_end_column/no-panic and end > start (docs <= 2 chars incl. a 2-byte char)",
  (n: u8, c: [u8; 3], line: u8, col: u8), {
    if n > 2 || line > 3 || col > 4 { return true; }
    let doc = mkdoc(n, c);
    let end = get_error_end_column(&doc, line as usize, col as usize);
    std::mem::forget(doc);
    end > col as usize });

vpv_replay_table!(c43_position_to_line_col, c43_position_to_line_col_len3__thorough, c43_error_end_column);
