// C45 — the circuit breaker follows its contract (appended to varpulis-runtime/src/circuit_breaker.rs)
// Every public method is one critical section on one Mutex, so any interleaving of senders is a SEQUENCE of the
// steps below; each cell proves that the REAL method implements `spec_step` for every reachable-or-not inner state.
use std::sync::atomic::Ordering as AO;

#[derive(Clone, Copy, PartialEq, Eq, Debug)]
pub struct Abs { pub st: u8, pub fails: u32 }          // st: 0 Closed, 1 Open, 2 HalfOpen
#[derive(Clone, Copy, PartialEq, Eq, Debug)]
pub enum Op { Allow { timeout_elapsed: bool }, Success, Failure }

/// THE CONTRACT (specification of one step).  Returns (next abstract state, admitted?).
/// `timeout_elapsed` = "now - last_failure >= reset_timeout" (only meaningful in Open).
pub fn spec_step(s: Abs, op: Op, threshold: u32) -> (Abs, bool) {
    match op {
        Op::Allow { timeout_elapsed } => match s.st {
            0 => (s, true),                                                   // Closed admits
            1 => if timeout_elapsed { (Abs { st: 2, fails: s.fails }, true) } // Open -> HalfOpen, this request is THE probe
                 else { (s, false) },                                         // Open rejects until the reset timeout has passed
            _ => (s, false),                                                  // HalfOpen: nothing else until the probe reports
        },
        Op::Success => (Abs { st: if s.st == 2 { 0 } else { s.st }, fails: 0 }, true),
        Op::Failure => {
            let f = s.fails + 1;
            let st = match s.st { 0 => if f >= threshold { 1 } else { 0 }, _ => 1 };
            (Abs { st, fails: f }, true)
        }
    }
}

pub fn st_of(s: State) -> u8 { match s { State::Closed => 0, State::Open => 1, State::HalfOpen => 2 } }
pub fn st_from(k: u8) -> State { match k % 3 { 0 => State::Closed, 1 => State::Open, _ => State::HalfOpen } }

#[cfg(kani)] pub static mut VPV_ELAPSED: (u64, u32) = (0, 0);
#[cfg(kani)] pub fn stub_elapsed(_i: &Instant) -> Duration { let (s, n) = unsafe { VPV_ELAPSED }; Duration::new(s, n) }
/// a Duration from symbolic (secs, nanos) without any division; None if out of the modelled range
pub fn dur(secs: u64, nanos: u32) -> Option<Duration> { if nanos < 1_000_000_000 && secs < (1u64 << 40) { Some(Duration::new(secs, nanos)) } else { None } }
#[cfg(kani)] pub fn stub_now() -> Instant { unsafe { std::mem::transmute::<(i64, u32), Instant>((1, 0)) } }

/// a breaker in an arbitrary inner state whose last failure lies `elapsed_ns` in the past
pub fn mk(st: u8, fails: u32, threshold: u32, timeout: Duration, has_last: bool, elapsed: Duration) -> CircuitBreaker {
    #[cfg(kani)]
    let last = { unsafe { VPV_ELAPSED = (elapsed.as_secs(), elapsed.subsec_nanos()); } if has_last { Some(stub_now()) } else { None } };
    #[cfg(not(kani))]
    let last = if has_last { Instant::now().checked_sub(elapsed) } else { None };
    CircuitBreaker {
        config: CircuitBreakerConfig { failure_threshold: threshold, reset_timeout: timeout },
        state: Mutex::new(InnerState { state: st_from(st), consecutive_failures: fails, last_failure_time: last }),
        failures_total: AtomicU64::new(0), successes_total: AtomicU64::new(0), rejections_total: AtomicU64::new(0),
    }
}
pub fn abs_of(cb: &CircuitBreaker) -> Abs {
    let g = cb.state.lock().unwrap_or_else(|e| e.into_inner());
    Abs { st: st_of(g.state), fails: g.consecutive_failures }
}

vpv_cell!(c45_new, "C45/new/starts-closed-with-zero-failures-and-admits", (threshold: u32, ts: u64, tn: u32), {
    let Some(timeout) = dur(ts, tn) else { return true; };
    let cb = CircuitBreaker::new(CircuitBreakerConfig { failure_threshold: threshold, reset_timeout: timeout });
    abs_of(&cb) == Abs { st: 0, fails: 0 } && cb.state() == State::Closed
});

vpv_cell!(#[kani::stub(std::time::Instant::elapsed, stub_elapsed)] #[kani::stub(std::time::Instant::now, stub_now)]
  c45_allow_request, "C45/allow_request/implements-spec_step (Closed admits; Open rejects until reset timeout then admits ONE probe; HalfOpen admits nothing)",
  (st: u8, fails: u32, threshold: u32, ts: u64, tn: u32, has_last: bool, es: u64, en: u32), {
    if threshold == 0 { return true; }
    let (Some(timeout), Some(elapsed)) = (dur(ts, tn), dur(es, en)) else { return true; };
    // native replay only: the real clock keeps running, stay one second clear of the boundary
    #[cfg(not(kani))] if elapsed < timeout && timeout - elapsed < Duration::from_secs(1) { return true; }
    let cb = mk(st, fails, threshold, timeout, has_last, elapsed);
    let before = abs_of(&cb);
    let admitted = cb.allow_request();
    let after = abs_of(&cb);
    let te = has_last && elapsed >= timeout;
    let (want, want_adm) = spec_step(before, Op::Allow { timeout_elapsed: te }, threshold);
    let rej = cb.rejections_total.load(AO::Relaxed);
    after == want && admitted == want_adm && (admitted || rej == 1) && (!admitted || rej == 0)
});

vpv_cell!(c45_record_success, "C45/record_success/implements-spec_step (zeroes the counter; HalfOpen closes)",
  (st: u8, fails: u32, threshold: u32), {
    if threshold == 0 { return true; }
    let cb = mk(st, fails, threshold, Duration::from_secs(30), false, Duration::ZERO);
    let before = abs_of(&cb);
    cb.record_success();
    let (want, _) = spec_step(before, Op::Success, threshold);
    abs_of(&cb) == want && cb.successes_total.load(AO::Relaxed) == 1
});

vpv_cell!(#[kani::stub(std::time::Instant::elapsed, stub_elapsed)] #[kani::stub(std::time::Instant::now, stub_now)]
  c45_record_failure, "C45/record_failure/implements-spec_step (Closed opens iff failures+1 >= threshold; HalfOpen reopens) and records the failure time",
  (st: u8, fails: u32, threshold: u32), {
    if threshold == 0 { return true; }
    if fails == u32::MAX { return true; }      // machine range: 2^32 consecutive failures (listed as an assumption)
    let cb = mk(st, fails, threshold, Duration::from_secs(30), false, Duration::ZERO);
    let before = abs_of(&cb);
    cb.record_failure();
    let (want, _) = spec_step(before, Op::Failure, threshold);
    let has_time = cb.state.lock().unwrap_or_else(|e| e.into_inner()).last_failure_time.is_some();
    abs_of(&cb) == want && has_time && cb.failures_total.load(AO::Relaxed) == 1
});

// two consecutive allow_request calls once the timeout has passed: exactly one probe is admitted
vpv_cell!(#[kani::stub(std::time::Instant::elapsed, stub_elapsed)] #[kani::stub(std::time::Instant::now, stub_now)]
  c45_single_probe, "C45/allow_request x2/half-open admits exactly one probe until it completes",
  (fails: u32, threshold: u32, ts: u64, tn: u32, es: u64, en: u32), {
    let (Some(timeout), Some(elapsed)) = (dur(ts, tn), dur(es, en)) else { return true; };
    if threshold == 0 || elapsed < timeout { return true; }
    let cb = mk(1, fails, threshold, timeout, true, elapsed);
    let first = cb.allow_request();
    let second = cb.allow_request();
    let third = cb.allow_request();
    first && !second && !third && cb.state() == State::HalfOpen
});


// bounded stand-in for the lifting "opens after EXACTLY `threshold` consecutive failures" (the unbounded statement follows from the
// step cells by induction on the counter): from a fresh breaker, k <= 4 failures, thresholds 1..=4
vpv_cell!(#[kani::stub(std::time::Instant::elapsed, stub_elapsed)] #[kani::stub(std::time::Instant::now, stub_now)] #[kani::unwind(6)]
  c45_opens_after_exactly_threshold, "C45/record_failure^k/fresh breaker opens after exactly `threshold` consecutive failures (threshold 1..=4)",
  (threshold: u32), {
    if threshold == 0 || threshold > 4 { return true; }
    let cb = CircuitBreaker::new(CircuitBreakerConfig { failure_threshold: threshold, reset_timeout: Duration::from_secs(30) });
    let mut k = 0u32; let mut ok = true;
    while k < 4 {
        ok = ok && (cb.state() == State::Closed) == (k < threshold);
        cb.record_failure();
        k += 1;
        ok = ok && (cb.state() == State::Open) == (k >= threshold);
    }
    ok
});


// ---- dead-letter queue: BOUNDED STAND-IN (native enumeration; file I/O + serde are outside both verifiers).  "Every event handed to a protected sink is
// either delivered or written to its dead-letter queue as a readable entry naming the sink and the error": for sink names and error texts containing
// quotes, backslashes, newlines and non-ASCII characters, written singly and in batches of 0..=3 events, every line of the queue file is a JSON object whose
// `connector` and `error` are exactly the strings given and whose `event` carries the event type; one line per event; the counter agrees.
vpv_native!(c45_dlq_entries_readable, "C45/DeadLetterQueue::write + write_batch/one readable JSON line per event naming the sink and the error exactly (native enumeration: 6 sink names x 7 error texts x single write and batches of 0..=3)", {
    let texts = ["plain", "", "say \"hi\"", "back\\slash", "two\nlines", "tab\tand \u{e9}\u{4e16}", "{\"json\": [1, 2]}"];
    let mut ok = true; let mut shown = 0;
    let dir = std::env::temp_dir().join(format!("vpv-c45-dlq-{}", std::process::id()));
    let _ = std::fs::create_dir_all(&dir);
    for (ci, conn) in texts.iter().take(6).enumerate() { for (ei, err) in texts.iter().enumerate() { for batch in 0..=4usize {
        let good = vpv_enum_try(|| format!("sink name {:?}, error text {:?}, {}", conn, err, if batch == 4 { String::from("single write") } else { format!("batch of {}", batch) }), || {
            let path = dir.join(format!("q-{}-{}-{}.jsonl", ci, ei, batch));
            let _ = std::fs::remove_file(&path);
            let dlq = match crate::dead_letter::DeadLetterQueue::open(&path) { Ok(d) => d, Err(_) => return false };
            let mk = |k: usize| crate::event::Event::new("Ev\u{e9}nt").with_field("n", k as i64).with_field("text", *err);
            let expected = if batch == 4 { dlq.write(conn, err, &mk(0)); 1 } else {
                let evs: Vec<std::sync::Arc<crate::event::Event>> = (0..batch).map(|k| std::sync::Arc::new(mk(k))).collect();
                dlq.write_batch(conn, err, &evs); batch };
            let content = std::fs::read_to_string(&path).unwrap_or_default();
            let _ = std::fs::remove_file(&path);
            let lines: Vec<&str> = content.lines().collect();
            if dlq.count() as usize != expected { println!("  counter {} but {} events handed over", dlq.count(), expected); return false; }
            let mut parsed = 0usize;
            // an entry may itself contain an escaped newline but never a raw one: every physical line must be one JSON object
            for l in &lines {
                let v: serde_json::Value = match serde_json::from_str(l) { Ok(v) => v, Err(e) => { println!("  line is not JSON ({}): {}", e, l); return false; } };
                if v.get("connector").and_then(|x| x.as_str()) != Some(*conn) || v.get("error").and_then(|x| x.as_str()) != Some(*err) { println!("  entry does not name sink / error exactly: {}", l); return false; }
                if v.get("event").and_then(|e| e.get("event_type")).and_then(|x| x.as_str()) != Some("Ev\u{e9}nt") { println!("  entry does not carry the event: {}", l); return false; }
                parsed += 1;
            }
            parsed == expected
        });
        if !good { ok = false; shown += 1; if shown >= 3 { let _ = std::fs::remove_dir_all(&dir); return false; } }
    } } }
    let _ = std::fs::remove_dir_all(&dir);
    ok
});

// ---- ResilientSink::send / send_batch (async trait object + breaker + DLQ): BOUNDED STAND-IN (native enumeration).
// A scripted downstream (each call succeeds or fails as the script says) behind the real ResilientSink, the real breaker (threshold 1 or 2, reset timeout 0 or
// one hour) and a real dead-letter queue file; every script of <= 5 calls over {send ok, send fail, batch(0) , batch(2) ok, batch(2) fail}:
//  (1) every event handed over is delivered downstream or written to the queue, never both, never lost;
//  (2) between calls the breaker is never left half-open (the probe it admitted has completed);
//  (3) with reset timeout 0 a successful call always leaves the breaker closed.
#[cfg(vpv_replay)]
pub struct C45Scripted { pub script: std::sync::Mutex<Vec<bool>>, pub delivered: std::sync::atomic::AtomicU64 }
#[cfg(vpv_replay)]
#[async_trait::async_trait]
impl crate::sink::Sink for C45Scripted {
    fn name(&self) -> &str { "scripted" }
    async fn send(&self, _event: &crate::event::Event) -> anyhow::Result<()> {
        let ok = self.script.lock().unwrap().pop().unwrap_or(true);
        if ok { self.delivered.fetch_add(1, std::sync::atomic::Ordering::Relaxed); Ok(()) } else { Err(anyhow::anyhow!("downstream \"refused\"")) }
    }
    async fn send_batch(&self, events: &[std::sync::Arc<crate::event::Event>]) -> anyhow::Result<()> {
        let ok = self.script.lock().unwrap().pop().unwrap_or(true);
        if ok { self.delivered.fetch_add(events.len() as u64, std::sync::atomic::Ordering::Relaxed); Ok(()) } else { Err(anyhow::anyhow!("downstream batch refused")) }
    }
    async fn flush(&self) -> anyhow::Result<()> { Ok(()) }
    async fn close(&self) -> anyhow::Result<()> { Ok(()) }
}
vpv_native!(c45_resilient_sink, "C45/ResilientSink::send + send_batch/every event is delivered or queued exactly once; the breaker is never left half-open between calls; a success at reset timeout 0 closes it (native enumeration: scripts of <= 5 calls over 5 call kinds x thresholds 1, 2 x reset timeout 0 / 1 h)", {
    use crate::sink::Sink;
    let rt = tokio::runtime::Builder::new_current_thread().enable_all().build().unwrap();
    let dir = std::env::temp_dir().join(format!("vpv-c45-rs-{}", std::process::id()));
    let _ = std::fs::create_dir_all(&dir);
    let mut ok = true; let mut shown = 0; let mut n = 0u64;
    // call kinds: 0 send/ok  1 send/fail  2 empty batch (downstream would succeed)  3 batch of 2/ok  4 batch of 2/fail
    for len in 0..=5usize { for code in 0..5usize.pow(len as u32) { for threshold in [1u32, 2] { for timeout_s in [0u64, 3600] {
        let mut calls = Vec::new(); let mut c = code; for _ in 0..len { calls.push(c % 5); c /= 5; }
        n += 1;
        let good = vpv_enum_try(|| format!("calls={:?} (0 send ok, 1 send fail, 2 empty batch, 3 batch(2) ok, 4 batch(2) fail) threshold={} reset_timeout={}s", calls, threshold, timeout_s), || {
            let path = dir.join(format!("q-{}.jsonl", n)); let _ = std::fs::remove_file(&path);
            let dlq = std::sync::Arc::new(crate::dead_letter::DeadLetterQueue::open(&path).unwrap());
            let cb = std::sync::Arc::new(CircuitBreaker::new(CircuitBreakerConfig { failure_threshold: threshold, reset_timeout: Duration::from_secs(timeout_s) }));
            // the script is popped from the back: one entry per downstream call, in call order
            let script: Vec<bool> = calls.iter().rev().map(|k| matches!(k, 0 | 2 | 3)).collect();
            let down = std::sync::Arc::new(C45Scripted { script: std::sync::Mutex::new(Vec::new()), delivered: std::sync::atomic::AtomicU64::new(0) });
            let rs = crate::sink::ResilientSink::new(down.clone(), cb.clone(), Some(dlq.clone()));
            let _ = script;
            let mut handed = 0u64;
            for k in &calls {
                // the downstream answer for THIS call, used only if the breaker lets the call through
                *down.script.lock().unwrap() = vec![matches!(k, 0 | 2 | 3)];
                let before_state = cb.state();
                let res = match k {
                    0 | 1 => { handed += 1; rt.block_on(rs.send(&crate::event::Event::new("E"))) }
                    2 => rt.block_on(rs.send_batch(&[])),
                    _ => { handed += 2; let evs = vec![std::sync::Arc::new(crate::event::Event::new("E")), std::sync::Arc::new(crate::event::Event::new("E"))]; rt.block_on(rs.send_batch(&evs)) }
                };
                if cb.state() == State::HalfOpen { println!("  breaker left half-open after call kind {} (state before the call: {:?})", k, before_state); return false; }
                if res.is_ok() && timeout_s == 0 && cb.state() != State::Closed { println!("  successful call kind {} left the breaker {:?}", k, cb.state()); return false; }
            }
            let delivered = down.delivered.load(std::sync::atomic::Ordering::Relaxed);
            let queued = dlq.count();
            let _ = std::fs::remove_file(&path);
            if delivered + queued != handed { println!("  handed {} events: delivered {}, queued {}", handed, delivered, queued); }
            delivered + queued == handed
        });
        if !good { ok = false; shown += 1; if shown >= 3 { let _ = std::fs::remove_dir_all(&dir); return false; } }
    } } } }
    let _ = std::fs::remove_dir_all(&dir);
    ok
});
vpv_replay_table!(c45_opens_after_exactly_threshold, c45_new, c45_allow_request, c45_record_success, c45_record_failure, c45_single_probe, c45_dlq_entries_readable, c45_resilient_sink);
