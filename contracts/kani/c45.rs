// C45 — the circuit breaker follows its contract (appended to varpulis-runtime/src/circuit_breaker.rs)
// Every public method is one critical section on one Mutex, so any interleaving of senders is a SEQUENCE of the
// steps below; each cell proves that the REAL method implements `spec_step` for every reachable-or-not inner state.
use std::sync::atomic::Ordering as AO;

#[derive(Clone, Copy, PartialEq, Eq, Debug)]
pub struct Abs { pub st: u8, pub fails: u32 }          // st: 0 Closed, 1 Open, 2 HalfOpen
#[derive(Clone, Copy, PartialEq, Eq, Debug)]
pub enum Op { Allow { timeout_elapsed: bool }, Success, Failure }

/// THE CONTRACT (specification of one step).  Returns (next abstract state, admitted?).
/// `timeout_elapsed` = "now - last_failure >= reset_timeout" (only meaningful in Open).
pub fn spec_step(s: Abs, op: Op, threshold: u32) -> (Abs, bool) {
    match op {
        Op::Allow { timeout_elapsed } => match s.st {
            0 => (s, true),                                                   // Closed admits
            1 => if timeout_elapsed { (Abs { st: 2, fails: s.fails }, true) } // Open -> HalfOpen, this request is THE probe
                 else { (s, false) },                                         // Open rejects until the reset timeout has passed
            _ => (s, false),                                                  // HalfOpen: nothing else until the probe reports
        },
        Op::Success => (Abs { st: if s.st == 2 { 0 } else { s.st }, fails: 0 }, true),
        Op::Failure => {
            let f = s.fails + 1;
            let st = match s.st { 0 => if f >= threshold { 1 } else { 0 }, _ => 1 };
            (Abs { st, fails: f }, true)
        }
    }
}

pub fn st_of(s: State) -> u8 { match s { State::Closed => 0, State::Open => 1, State::HalfOpen => 2 } }
pub fn st_from(k: u8) -> State { match k % 3 { 0 => State::Closed, 1 => State::Open, _ => State::HalfOpen } }

#[cfg(kani)] pub static mut VPV_ELAPSED: (u64, u32) = (0, 0);
#[cfg(kani)] pub fn stub_elapsed(_i: &Instant) -> Duration { let (s, n) = unsafe { VPV_ELAPSED }; Duration::new(s, n) }
/// a Duration from symbolic (secs, nanos) without any division; None if out of the modelled range
pub fn dur(secs: u64, nanos: u32) -> Option<Duration> { if nanos < 1_000_000_000 && secs < (1u64 << 40) { Some(Duration::new(secs, nanos)) } else { None } }
#[cfg(kani)] pub fn stub_now() -> Instant { unsafe { std::mem::transmute::<(i64, u32), Instant>((1, 0)) } }

/// a breaker in an arbitrary inner state whose last failure lies `elapsed_ns` in the past
pub fn mk(st: u8, fails: u32, threshold: u32, timeout: Duration, has_last: bool, elapsed: Duration) -> CircuitBreaker {
    #[cfg(kani)]
    let last = { unsafe { VPV_ELAPSED = (elapsed.as_secs(), elapsed.subsec_nanos()); } if has_last { Some(stub_now()) } else { None } };
    #[cfg(not(kani))]
    let last = if has_last { Instant::now().checked_sub(elapsed) } else { None };
    CircuitBreaker {
        config: CircuitBreakerConfig { failure_threshold: threshold, reset_timeout: timeout },
        state: Mutex::new(InnerState { state: st_from(st), consecutive_failures: fails, last_failure_time: last }),
        failures_total: AtomicU64::new(0), successes_total: AtomicU64::new(0), rejections_total: AtomicU64::new(0),
    }
}
pub fn abs_of(cb: &CircuitBreaker) -> Abs {
    let g = cb.state.lock().unwrap_or_else(|e| e.into_inner());
    Abs { st: st_of(g.state), fails: g.consecutive_failures }
}

vpv_cell!(c45_new, "C45/new/starts-closed-with-zero-failures-and-admits", (threshold: u32, ts: u64, tn: u32), {
    let Some(timeout) = dur(ts, tn) else { return true; };
    let cb = CircuitBreaker::new(CircuitBreakerConfig { failure_threshold: threshold, reset_timeout: timeout });
    abs_of(&cb) == Abs { st: 0, fails: 0 } && cb.state() == State::Closed
});

vpv_cell!(#[kani::stub(std::time::Instant::elapsed, stub_elapsed)] #[kani::stub(std::time::Instant::now, stub_now)]
  c45_allow_request, "C45/allow_request/implements-spec_step (Closed admits; Open rejects until reset timeout then admits ONE probe; HalfOpen admits nothing)",
  (st: u8, fails: u32, threshold: u32, ts: u64, tn: u32, has_last: bool, es: u64, en: u32), {
    if threshold == 0 { return true; }
    let (Some(timeout), Some(elapsed)) = (dur(ts, tn), dur(es, en)) else { return true; };
    // native replay only: the real clock keeps running, stay one second clear of the boundary
    #[cfg(not(kani))] if elapsed < timeout && timeout - elapsed < Duration::from_secs(1) { return true; }
    let cb = mk(st, fails, threshold, timeout, has_last, elapsed);
    let before = abs_of(&cb);
    let admitted = cb.allow_request();
    let after = abs_of(&cb);
    let te = has_last && elapsed >= timeout;
    let (want, want_adm) = spec_step(before, Op::Allow { timeout_elapsed: te }, threshold);
    let rej = cb.rejections_total.load(AO::Relaxed);
    after == want && admitted == want_adm && (admitted || rej == 1) && (!admitted || rej == 0)
});

vpv_cell!(c45_record_success, "C45/record_success/implements-spec_step (zeroes the counter; HalfOpen closes)",
  (st: u8, fails: u32, threshold: u32), {
    if threshold == 0 { return true; }
    let cb = mk(st, fails, threshold, Duration::from_secs(30), false, Duration::ZERO);
    let before = abs_of(&cb);
    cb.record_success();
    let (want, _) = spec_step(before, Op::Success, threshold);
    abs_of(&cb) == want && cb.successes_total.load(AO::Relaxed) == 1
});

vpv_cell!(#[kani::stub(std::time::Instant::elapsed, stub_elapsed)] #[kani::stub(std::time::Instant::now, stub_now)]
  c45_record_failure, "C45/record_failure/implements-spec_step (Closed opens iff failures+1 >= threshold; HalfOpen reopens) and records the failure time",
  (st: u8, fails: u32, threshold: u32), {
    if threshold == 0 { return true; }
    if fails == u32::MAX { return true; }      // machine range: 2^32 consecutive failures (listed as an assumption)
    let cb = mk(st, fails, threshold, Duration::from_secs(30), false, Duration::ZERO);
    let before = abs_of(&cb);
    cb.record_failure();
    let (want, _) = spec_step(before, Op::Failure, threshold);
    let has_time = cb.state.lock().unwrap_or_else(|e| e.into_inner()).last_failure_time.is_some();
    abs_of(&cb) == want && has_time && cb.failures_total.load(AO::Relaxed) == 1
});

// two consecutive allow_request calls once the timeout has passed: exactly one probe is admitted
vpv_cell!(#[kani::stub(std::time::Instant::elapsed, stub_elapsed)] #[kani::stub(std::time::Instant::now, stub_now)]
  c45_single_probe, "C45/allow_request x2/half-open admits exactly one probe until it completes",
  (fails: u32, threshold: u32, ts: u64, tn: u32, es: u64, en: u32), {
    let (Some(timeout), Some(elapsed)) = (dur(ts, tn), dur(es, en)) else { return true; };
    if threshold == 0 || elapsed < timeout { return true; }
    let cb = mk(1, fails, threshold, timeout, true, elapsed);
    let first = cb.allow_request();
    let second = cb.allow_request();
    let third = cb.allow_request();
    first && !second && !third && cb.state() == State::HalfOpen
});


// bounded stand-in for the lifting "opens after EXACTLY `threshold` consecutive failures" (the unbounded statement follows from the
// step cells by induction on the counter): from a fresh breaker, k <= 4 failures, thresholds 1..=4
vpv_cell!(#[kani::stub(std::time::Instant::elapsed, stub_elapsed)] #[kani::stub(std::time::Instant::now, stub_now)] #[kani::unwind(6)]
  c45_opens_after_exactly_threshold, "C45/record_failure^k/fresh breaker opens after exactly `threshold` consecutive failures (threshold 1..=4)",
  (threshold: u32), {
    if threshold == 0 || threshold > 4 { return true; }
    let cb = CircuitBreaker::new(CircuitBreakerConfig { failure_threshold: threshold, reset_timeout: Duration::from_secs(30) });
    let mut k = 0u32; let mut ok = true;
    while k < 4 {
        ok = ok && (cb.state() == State::Closed) == (k < threshold);
        cb.record_failure();
        k += 1;
        ok = ok && (cb.state() == State::Open) == (k >= threshold);
    }
    ok
});

vpv_replay_table!(c45_opens_after_exactly_threshold, c45_new, c45_allow_request, c45_record_success, c45_record_failure, c45_single_probe);
