// C10 — constant folding never changes what an expression computes (appended to engine/evaluator.rs; the folder's
// private functions are reached through a cfg(kani|vpv_replay) re-export shim appended to varpulis-parser/src/optimize.rs).
// Contract per rewrite arm:  eval(fold_binary(op, l, r)) == eval(Binary{op, l, r})  as Option<Value> under Value::eq
// (same value, or the same absence of a value), and neither side panics.
use varpulis_core::ast::{BinOp, Expr, UnaryOp};
use varpulis_parser::optimize::{__vpv_fold_binary, __vpv_fold_unary, __vpv_fold_expr};

pub fn ev(e: &Expr) -> Option<Value> {
    let evt = Event::new_at("E", chrono::DateTime::<chrono::Utc>::UNIX_EPOCH);
    let ctx = SequenceContext::default();
    let fns: FxHashMap<String, UserFunction> = FxHashMap::default();
    let binds: FxHashMap<String, Value> = FxHashMap::default();
    eval_expr_with_functions(e, &evt, &ctx, &fns, &binds)
}
/// "the same value, or the same absence of a value".  Natively this is Value's own equality.  Under Kani the derived/std comparisons of
/// the NON-scalar variants (String/Vec/IndexMap: memcmp and element loops over unconstrained lengths — measured: CBMC unwinds memcmp
/// without bound) are replaced by a scalar-only comparison that answers `false` when in doubt; a refutation that is only due to that
/// `false` does not reproduce in the native replay and is therefore reported as undecided, never as a violation.
#[cfg(not(kani))]
pub fn same(a: &Option<Value>, b: &Option<Value>) -> bool {
    match (a, b) { (None, None) => true, (Some(x), Some(y)) => x == y, _ => false }
}
#[cfg(kani)]
pub fn same(a: &Option<Value>, b: &Option<Value>) -> bool {
    match (a, b) {
        (None, None) => true,
        (Some(x), Some(y)) => match (x, y) {
            (Value::Null, Value::Null) => true,
            (Value::Bool(p), Value::Bool(q)) => p == q,
            (Value::Int(p), Value::Int(q)) => p == q,
            (Value::Float(p), Value::Float(q)) => (p.is_nan() && q.is_nan()) || p == q,
            (Value::Str(p), Value::Str(q)) => {
                let (pb, qb) = (p.as_bytes(), q.as_bytes());
                if pb.len() != qb.len() || pb.len() > 4 { return false; }
                let mut i = 0; let mut eq = true;
                while i < 4 { if i < pb.len() && pb[i] != qb[i] { eq = false; } i += 1; }
                eq
            }
            _ => false,
        },
        _ => false,
    }
}
pub fn bin(op: BinOp, l: Expr, r: Expr) -> Expr { Expr::Binary { op, left: Box::new(l), right: Box::new(r) } }
/// Value of a (possibly rewritten) expression, dispatching on its SHAPE first: a literal result is its own value (this is the evaluator's
/// literal arm — proved separately by the cells C10/eval-literal/*), an expression structurally identical to the original has the original's
/// value (the evaluator is a function of the expression), anything else is evaluated.  Matching on the shape keeps every evaluated tree
/// concrete-shaped for CBMC (measured: evaluating an if-then-else of two tree shapes does not finish).
pub fn value_of_folded(folded: &Expr, orig: &Expr, vo: &Option<Value>, depth: u8, lit_only: bool) -> bool {
    match folded {
        Expr::Int(v) => same(vo, &Some(Value::Int(*v))),
        Expr::Float(v) => same(vo, &Some(Value::Float(*v))),
        Expr::Bool(v) => same(vo, &Some(Value::Bool(*v))),
        Expr::Null => same(vo, &Some(Value::Null)),
        other => {
            if same_tree(other, orig, depth) { return true; }
            // `lit_only` cells (both operands literals with SYMBOLIC values): the folder can only answer with a literal or with the
            // unchanged tree.  Under Kani any other answer is reported as a refutation WITHOUT evaluating it (evaluating a tree whose
            // shape depends on symbolic data does not finish, measured); the native replay below evaluates it for real, so an
            // equivalent-but-different rewrite does not reproduce and ends as undecided, never as a violation.
            #[cfg(kani)]
            if lit_only { return false; }
            let b = ev(other);
            let ok = same(vo, &b);
            std::mem::forget(b);
            ok
        }
    }
}
/// fold_binary(op, l, r) computes what Binary{op, l, r} computes
pub fn check_fold_binary(op: BinOp, l: Expr, r: Expr) -> bool { check_fold_binary_x(op, l, r, false) }
/// both operands are literals with symbolic values
pub fn check_fold_lits(op: BinOp, l: Expr, r: Expr) -> bool { check_fold_binary_x(op, l, r, true) }
pub fn check_fold_binary_x(op: BinOp, l: Expr, r: Expr, lit_only: bool) -> bool {
    let orig = bin(op, l.clone(), r.clone());
    let folded = __vpv_fold_binary(op, l, r);
    let vo = ev(&orig);
    let ok = value_of_folded(&folded, &orig, &vo, 2, lit_only);
    std::mem::forget(vo); std::mem::forget(orig); std::mem::forget(folded);
    ok
}
pub fn check_fold_unary(op: UnaryOp, x: Expr) -> bool {
    let orig = Expr::Unary { op, expr: Box::new(x.clone()) };
    let folded = __vpv_fold_unary(op, x);
    let vo = ev(&orig);
    let ok = value_of_folded(&folded, &orig, &vo, 2, false);
    std::mem::forget(vo); std::mem::forget(orig); std::mem::forget(folded);
    ok
}
pub fn check_fold_expr(e: Expr) -> bool {
    let folded = __vpv_fold_expr(e.clone());
    let vo = ev(&e);
    let ok = value_of_folded(&folded, &e, &vo, 3, false);
    std::mem::forget(vo); std::mem::forget(e); std::mem::forget(folded);
    ok
}
/// divisor tables for the division / remainder cells: two symbolic 64-bit dividers (folder and evaluator) are beyond the SAT solver here
/// (measured: 600 s timeouts), so the divisor ranges over these constants (all boundary cases: 0, +-1, MIN, MAX) and the dividend is full-domain
pub const INT_TBL: [i64; 9] = [0, 1, -1, 2, 3, -7, 10, i64::MAX, i64::MIN];
pub const FLT_TBL: [f64; 8] = [0.0, -0.0, 1.0, -1.0, 2.0, 0.5, f64::INFINITY, f64::NAN];
/// a literal-only sub-expression that the folder leaves alone and that evaluates to NO value at run time
pub fn no_value() -> Expr { bin(BinOp::Div, Expr::Int(1), Expr::Int(0)) }


/// cheap structural identity on the shapes used by these cells (literal leaves compared by bits); `false` when in doubt
pub fn same_tree(a: &Expr, b: &Expr, depth: u8) -> bool {
    match (a, b) {
        (Expr::Int(x), Expr::Int(y)) => x == y,
        (Expr::Float(x), Expr::Float(y)) => x.to_bits() == y.to_bits(),
        (Expr::Bool(x), Expr::Bool(y)) => x == y,
        (Expr::Null, Expr::Null) => true,
        (Expr::Binary { op: o1, left: l1, right: r1 }, Expr::Binary { op: o2, left: l2, right: r2 }) =>
            depth > 0 && o1 == o2 && same_tree(l1, l2, depth - 1) && same_tree(r1, r2, depth - 1),
        (Expr::Unary { op: o1, expr: e1 }, Expr::Unary { op: o2, expr: e2 }) => depth > 0 && o1 == o2 && same_tree(e1, e2, depth - 1),
        _ => false,
    }
}
/// a sub-expression whose VALUE is only known at run time (stands for a field reference of that type without any hash-map
/// lookup): the folder cannot fold `if true then <lit> else null`, the evaluator yields the literal
pub fn dyn_leaf(lit: Expr) -> Expr { Expr::If { cond: Box::new(Expr::Bool(true)), then_branch: Box::new(lit), else_branch: Box::new(Expr::Null) } }

#[cfg(kani)] pub fn stub_eval_filter_expr(_e: &Expr, _ev: &Event, _c: &SequenceContext) -> Option<Value> { None }
#[cfg(kani)] pub fn stub_collect_emitted_event(_e: Event) {}
#[cfg(kani)] pub fn stub_call_user_function(_f: &UserFunction, _a: &[Value], _e: &Event, _c: &SequenceContext, _fs: &FxHashMap<String, UserFunction>) -> Option<Value> { None }

vpv_cell!(#[kani::unwind(6)] #[kani::stub(eval_filter_expr, stub_eval_filter_expr)] #[kani::stub(collect_emitted_event, stub_collect_emitted_event)] #[kani::stub(call_user_function, stub_call_user_function)] c10_lit_add_int_int, "C10/fold_binary/literal/Add/Int-Int", (a: i64, b: i64), { check_fold_lits(BinOp::Add, Expr::Int(a), Expr::Int(b)) });
vpv_cell!(#[kani::unwind(6)] #[kani::stub(eval_filter_expr, stub_eval_filter_expr)] #[kani::stub(collect_emitted_event, stub_collect_emitted_event)] #[kani::stub(call_user_function, stub_call_user_function)] c10_lit_sub_int_int, "C10/fold_binary/literal/Sub/Int-Int", (a: i64, b: i64), { check_fold_lits(BinOp::Sub, Expr::Int(a), Expr::Int(b)) });
vpv_cell!(#[kani::unwind(6)] #[kani::stub(eval_filter_expr, stub_eval_filter_expr)] #[kani::stub(collect_emitted_event, stub_collect_emitted_event)] #[kani::stub(call_user_function, stub_call_user_function)] c10_lit_mul_int_int, "C10/fold_binary/literal/Mul/Int-Int", (a: i64, b: i64), { check_fold_lits(BinOp::Mul, Expr::Int(a), Expr::Int(b)) });
vpv_cell!(#[kani::unwind(12)] #[kani::stub(eval_filter_expr, stub_eval_filter_expr)] #[kani::stub(collect_emitted_event, stub_collect_emitted_event)] #[kani::stub(call_user_function, stub_call_user_function)] c10_lit_div_int_int, "C10/fold_binary/literal/Div/Int-Int (dividend full-domain, divisor in INT_TBL)", (a: i64), { let mut ok = true; let mut i = 0; while i < INT_TBL.len() { ok = ok && check_fold_lits(BinOp::Div, Expr::Int(a), Expr::Int(INT_TBL[i])); i += 1; } ok });
vpv_cell!(#[kani::unwind(12)] #[kani::stub(eval_filter_expr, stub_eval_filter_expr)] #[kani::stub(collect_emitted_event, stub_collect_emitted_event)] #[kani::stub(call_user_function, stub_call_user_function)] c10_lit_mod_int_int, "C10/fold_binary/literal/Mod/Int-Int (dividend full-domain, divisor in INT_TBL)", (a: i64), { let mut ok = true; let mut i = 0; while i < INT_TBL.len() { ok = ok && check_fold_lits(BinOp::Mod, Expr::Int(a), Expr::Int(INT_TBL[i])); i += 1; } ok });
vpv_cell!(#[kani::unwind(6)] #[kani::stub(eval_filter_expr, stub_eval_filter_expr)] #[kani::stub(collect_emitted_event, stub_collect_emitted_event)] #[kani::stub(call_user_function, stub_call_user_function)] c10_lit_add_float_float, "C10/fold_binary/literal/Add/Float-Float", (a: f64, b: f64), { check_fold_lits(BinOp::Add, Expr::Float(a), Expr::Float(b)) });
vpv_cell!(#[kani::unwind(6)] #[kani::stub(eval_filter_expr, stub_eval_filter_expr)] #[kani::stub(collect_emitted_event, stub_collect_emitted_event)] #[kani::stub(call_user_function, stub_call_user_function)] c10_lit_sub_float_float, "C10/fold_binary/literal/Sub/Float-Float", (a: f64, b: f64), { check_fold_lits(BinOp::Sub, Expr::Float(a), Expr::Float(b)) });
vpv_cell!(#[kani::unwind(6)] #[kani::stub(eval_filter_expr, stub_eval_filter_expr)] #[kani::stub(collect_emitted_event, stub_collect_emitted_event)] #[kani::stub(call_user_function, stub_call_user_function)] c10_lit_mul_float_float, "C10/fold_binary/literal/Mul/Float-Float", (a: f64, b: f64), { check_fold_lits(BinOp::Mul, Expr::Float(a), Expr::Float(b)) });
vpv_cell!(#[kani::unwind(12)] #[kani::stub(eval_filter_expr, stub_eval_filter_expr)] #[kani::stub(collect_emitted_event, stub_collect_emitted_event)] #[kani::stub(call_user_function, stub_call_user_function)] c10_lit_div_float_float, "C10/fold_binary/literal/Div/Float-Float (dividend full-domain, divisor in FLT_TBL)", (a: f64), { let mut ok = true; let mut i = 0; while i < FLT_TBL.len() { ok = ok && check_fold_lits(BinOp::Div, Expr::Float(a), Expr::Float(FLT_TBL[i])); i += 1; } ok });
vpv_cell!(#[kani::unwind(6)] #[kani::stub(eval_filter_expr, stub_eval_filter_expr)] #[kani::stub(collect_emitted_event, stub_collect_emitted_event)] #[kani::stub(call_user_function, stub_call_user_function)] c10_lit_mod_float_float, "C10/fold_binary/literal/Mod/Float-Float", (a: f64, b: f64), { check_fold_lits(BinOp::Mod, Expr::Float(a), Expr::Float(b)) });
vpv_cell!(#[kani::unwind(6)] #[kani::stub(eval_filter_expr, stub_eval_filter_expr)] #[kani::stub(collect_emitted_event, stub_collect_emitted_event)] #[kani::stub(call_user_function, stub_call_user_function)] c10_lit_pow_float_float, "C10/fold_binary/literal/Pow/Float-Float", (a: f64, b: f64), { check_fold_lits(BinOp::Pow, Expr::Float(a), Expr::Float(b)) });
vpv_cell!(#[kani::unwind(6)] #[kani::stub(eval_filter_expr, stub_eval_filter_expr)] #[kani::stub(collect_emitted_event, stub_collect_emitted_event)] #[kani::stub(call_user_function, stub_call_user_function)] c10_lit_add_int_float, "C10/fold_binary/literal/Add/Int-Float", (a: i64, b: f64), { check_fold_lits(BinOp::Add, Expr::Int(a), Expr::Float(b)) });
vpv_cell!(#[kani::unwind(6)] #[kani::stub(eval_filter_expr, stub_eval_filter_expr)] #[kani::stub(collect_emitted_event, stub_collect_emitted_event)] #[kani::stub(call_user_function, stub_call_user_function)] c10_lit_add_float_int, "C10/fold_binary/literal/Add/Float-Int", (a: f64, b: i64), { check_fold_lits(BinOp::Add, Expr::Float(a), Expr::Int(b)) });
vpv_cell!(#[kani::unwind(6)] #[kani::stub(eval_filter_expr, stub_eval_filter_expr)] #[kani::stub(collect_emitted_event, stub_collect_emitted_event)] #[kani::stub(call_user_function, stub_call_user_function)] c10_lit_sub_int_float, "C10/fold_binary/literal/Sub/Int-Float", (a: i64, b: f64), { check_fold_lits(BinOp::Sub, Expr::Int(a), Expr::Float(b)) });
vpv_cell!(#[kani::unwind(6)] #[kani::stub(eval_filter_expr, stub_eval_filter_expr)] #[kani::stub(collect_emitted_event, stub_collect_emitted_event)] #[kani::stub(call_user_function, stub_call_user_function)] c10_lit_sub_float_int, "C10/fold_binary/literal/Sub/Float-Int", (a: f64, b: i64), { check_fold_lits(BinOp::Sub, Expr::Float(a), Expr::Int(b)) });
vpv_cell!(#[kani::unwind(12)] #[kani::stub(eval_filter_expr, stub_eval_filter_expr)] #[kani::stub(collect_emitted_event, stub_collect_emitted_event)] #[kani::stub(call_user_function, stub_call_user_function)] c10_lit_mul_int_float, "C10/fold_binary/literal/Mul/Int-Float (int operand != 0; 0 * x is the identity-arm cell 0*x/x=float)", (a: i64, b: f64), { if a == 0 { return true; } check_fold_lits(BinOp::Mul, Expr::Int(a), Expr::Float(b)) });
vpv_cell!(#[kani::unwind(12)] #[kani::stub(eval_filter_expr, stub_eval_filter_expr)] #[kani::stub(collect_emitted_event, stub_collect_emitted_event)] #[kani::stub(call_user_function, stub_call_user_function)] c10_lit_mul_float_int, "C10/fold_binary/literal/Mul/Float-Int (int operand != 0; x * 0 is the identity-arm cell x*0/x=float)", (a: f64, b: i64), { if b == 0 { return true; } check_fold_lits(BinOp::Mul, Expr::Float(a), Expr::Int(b)) });
vpv_cell!(#[kani::unwind(6)] #[kani::stub(eval_filter_expr, stub_eval_filter_expr)] #[kani::stub(collect_emitted_event, stub_collect_emitted_event)] #[kani::stub(call_user_function, stub_call_user_function)] c10_lit_div_int_float, "C10/fold_binary/literal/Div/Int-Float", (a: i64, b: f64), { check_fold_lits(BinOp::Div, Expr::Int(a), Expr::Float(b)) });
vpv_cell!(#[kani::unwind(6)] #[kani::stub(eval_filter_expr, stub_eval_filter_expr)] #[kani::stub(collect_emitted_event, stub_collect_emitted_event)] #[kani::stub(call_user_function, stub_call_user_function)] c10_lit_div_float_int, "C10/fold_binary/literal/Div/Float-Int", (a: f64, b: i64), { check_fold_lits(BinOp::Div, Expr::Float(a), Expr::Int(b)) });
vpv_cell!(#[kani::unwind(6)] #[kani::stub(eval_filter_expr, stub_eval_filter_expr)] #[kani::stub(collect_emitted_event, stub_collect_emitted_event)] #[kani::stub(call_user_function, stub_call_user_function)] c10_id_mul_zero_r_float, "C10/fold_binary/identity/x*0/x=float", (f: f64), { check_fold_binary(BinOp::Mul, Expr::Float(f), Expr::Int(0)) });
vpv_cell!(#[kani::stub(eval_filter_expr, stub_eval_filter_expr)] #[kani::stub(collect_emitted_event, stub_collect_emitted_event)] #[kani::stub(call_user_function, stub_call_user_function)] #[kani::unwind(6)] c10_id_mul_zero_r_str, "C10/fold_binary/identity/x*0/x=str", (), { check_fold_binary(BinOp::Mul, Expr::Str(String::from("ab")), Expr::Int(0)) });
vpv_cell!(#[kani::unwind(6)] #[kani::stub(eval_filter_expr, stub_eval_filter_expr)] #[kani::stub(collect_emitted_event, stub_collect_emitted_event)] #[kani::stub(call_user_function, stub_call_user_function)] c10_id_mul_zero_r_bool, "C10/fold_binary/identity/x*0/x=bool", (b: bool), { check_fold_binary(BinOp::Mul, Expr::Bool(b), Expr::Int(0)) });
vpv_cell!(#[kani::unwind(6)] #[kani::stub(eval_filter_expr, stub_eval_filter_expr)] #[kani::stub(collect_emitted_event, stub_collect_emitted_event)] #[kani::stub(call_user_function, stub_call_user_function)] c10_id_mul_zero_r_null, "C10/fold_binary/identity/x*0/x=null", (), { check_fold_binary(BinOp::Mul, Expr::Null, Expr::Int(0)) });
vpv_cell!(#[kani::unwind(6)] #[kani::stub(eval_filter_expr, stub_eval_filter_expr)] #[kani::stub(collect_emitted_event, stub_collect_emitted_event)] #[kani::stub(call_user_function, stub_call_user_function)] c10_id_mul_zero_l_float, "C10/fold_binary/identity/0*x/x=float", (f: f64), { check_fold_binary(BinOp::Mul, Expr::Int(0), Expr::Float(f)) });
vpv_cell!(#[kani::stub(eval_filter_expr, stub_eval_filter_expr)] #[kani::stub(collect_emitted_event, stub_collect_emitted_event)] #[kani::stub(call_user_function, stub_call_user_function)] #[kani::unwind(6)] c10_id_mul_zero_l_str, "C10/fold_binary/identity/0*x/x=str", (), { check_fold_binary(BinOp::Mul, Expr::Int(0), Expr::Str(String::from("ab"))) });
vpv_cell!(#[kani::unwind(6)] #[kani::stub(eval_filter_expr, stub_eval_filter_expr)] #[kani::stub(collect_emitted_event, stub_collect_emitted_event)] #[kani::stub(call_user_function, stub_call_user_function)] c10_id_mul_zero_l_bool, "C10/fold_binary/identity/0*x/x=bool", (b: bool), { check_fold_binary(BinOp::Mul, Expr::Int(0), Expr::Bool(b)) });
vpv_cell!(#[kani::unwind(6)] #[kani::stub(eval_filter_expr, stub_eval_filter_expr)] #[kani::stub(collect_emitted_event, stub_collect_emitted_event)] #[kani::stub(call_user_function, stub_call_user_function)] c10_id_mul_zero_l_null, "C10/fold_binary/identity/0*x/x=null", (), { check_fold_binary(BinOp::Mul, Expr::Int(0), Expr::Null) });
vpv_cell!(#[kani::unwind(6)] #[kani::stub(eval_filter_expr, stub_eval_filter_expr)] #[kani::stub(collect_emitted_event, stub_collect_emitted_event)] #[kani::stub(call_user_function, stub_call_user_function)] c10_id_mul_one_r_float, "C10/fold_binary/identity/x*1/x=float", (f: f64), { check_fold_binary(BinOp::Mul, Expr::Float(f), Expr::Int(1)) });
vpv_cell!(#[kani::stub(eval_filter_expr, stub_eval_filter_expr)] #[kani::stub(collect_emitted_event, stub_collect_emitted_event)] #[kani::stub(call_user_function, stub_call_user_function)] #[kani::unwind(6)] c10_id_mul_one_r_str, "C10/fold_binary/identity/x*1/x=str", (), { check_fold_binary(BinOp::Mul, Expr::Str(String::from("ab")), Expr::Int(1)) });
vpv_cell!(#[kani::unwind(6)] #[kani::stub(eval_filter_expr, stub_eval_filter_expr)] #[kani::stub(collect_emitted_event, stub_collect_emitted_event)] #[kani::stub(call_user_function, stub_call_user_function)] c10_id_mul_one_r_bool, "C10/fold_binary/identity/x*1/x=bool", (b: bool), { check_fold_binary(BinOp::Mul, Expr::Bool(b), Expr::Int(1)) });
vpv_cell!(#[kani::unwind(6)] #[kani::stub(eval_filter_expr, stub_eval_filter_expr)] #[kani::stub(collect_emitted_event, stub_collect_emitted_event)] #[kani::stub(call_user_function, stub_call_user_function)] c10_id_mul_one_r_null, "C10/fold_binary/identity/x*1/x=null", (), { check_fold_binary(BinOp::Mul, Expr::Null, Expr::Int(1)) });
vpv_cell!(#[kani::unwind(6)] #[kani::stub(eval_filter_expr, stub_eval_filter_expr)] #[kani::stub(collect_emitted_event, stub_collect_emitted_event)] #[kani::stub(call_user_function, stub_call_user_function)] c10_id_mul_one_l_float, "C10/fold_binary/identity/1*x/x=float", (f: f64), { check_fold_binary(BinOp::Mul, Expr::Int(1), Expr::Float(f)) });
vpv_cell!(#[kani::stub(eval_filter_expr, stub_eval_filter_expr)] #[kani::stub(collect_emitted_event, stub_collect_emitted_event)] #[kani::stub(call_user_function, stub_call_user_function)] #[kani::unwind(6)] c10_id_mul_one_l_str, "C10/fold_binary/identity/1*x/x=str", (), { check_fold_binary(BinOp::Mul, Expr::Int(1), Expr::Str(String::from("ab"))) });
vpv_cell!(#[kani::unwind(6)] #[kani::stub(eval_filter_expr, stub_eval_filter_expr)] #[kani::stub(collect_emitted_event, stub_collect_emitted_event)] #[kani::stub(call_user_function, stub_call_user_function)] c10_id_mul_one_l_bool, "C10/fold_binary/identity/1*x/x=bool", (b: bool), { check_fold_binary(BinOp::Mul, Expr::Int(1), Expr::Bool(b)) });
vpv_cell!(#[kani::unwind(6)] #[kani::stub(eval_filter_expr, stub_eval_filter_expr)] #[kani::stub(collect_emitted_event, stub_collect_emitted_event)] #[kani::stub(call_user_function, stub_call_user_function)] c10_id_mul_one_l_null, "C10/fold_binary/identity/1*x/x=null", (), { check_fold_binary(BinOp::Mul, Expr::Int(1), Expr::Null) });
vpv_cell!(#[kani::unwind(6)] #[kani::stub(eval_filter_expr, stub_eval_filter_expr)] #[kani::stub(collect_emitted_event, stub_collect_emitted_event)] #[kani::stub(call_user_function, stub_call_user_function)] c10_id_add_zero_r_float, "C10/fold_binary/identity/x+0/x=float", (f: f64), { check_fold_binary(BinOp::Add, Expr::Float(f), Expr::Int(0)) });
vpv_cell!(#[kani::stub(eval_filter_expr, stub_eval_filter_expr)] #[kani::stub(collect_emitted_event, stub_collect_emitted_event)] #[kani::stub(call_user_function, stub_call_user_function)] #[kani::unwind(6)] c10_id_add_zero_r_str, "C10/fold_binary/identity/x+0/x=str", (), { check_fold_binary(BinOp::Add, Expr::Str(String::from("ab")), Expr::Int(0)) });
vpv_cell!(#[kani::unwind(6)] #[kani::stub(eval_filter_expr, stub_eval_filter_expr)] #[kani::stub(collect_emitted_event, stub_collect_emitted_event)] #[kani::stub(call_user_function, stub_call_user_function)] c10_id_add_zero_r_bool, "C10/fold_binary/identity/x+0/x=bool", (b: bool), { check_fold_binary(BinOp::Add, Expr::Bool(b), Expr::Int(0)) });
vpv_cell!(#[kani::unwind(6)] #[kani::stub(eval_filter_expr, stub_eval_filter_expr)] #[kani::stub(collect_emitted_event, stub_collect_emitted_event)] #[kani::stub(call_user_function, stub_call_user_function)] c10_id_add_zero_r_null, "C10/fold_binary/identity/x+0/x=null", (), { check_fold_binary(BinOp::Add, Expr::Null, Expr::Int(0)) });
vpv_cell!(#[kani::unwind(6)] #[kani::stub(eval_filter_expr, stub_eval_filter_expr)] #[kani::stub(collect_emitted_event, stub_collect_emitted_event)] #[kani::stub(call_user_function, stub_call_user_function)] c10_id_add_zero_l_float, "C10/fold_binary/identity/0+x/x=float", (f: f64), { check_fold_binary(BinOp::Add, Expr::Int(0), Expr::Float(f)) });
vpv_cell!(#[kani::stub(eval_filter_expr, stub_eval_filter_expr)] #[kani::stub(collect_emitted_event, stub_collect_emitted_event)] #[kani::stub(call_user_function, stub_call_user_function)] #[kani::unwind(6)] c10_id_add_zero_l_str, "C10/fold_binary/identity/0+x/x=str", (), { check_fold_binary(BinOp::Add, Expr::Int(0), Expr::Str(String::from("ab"))) });
vpv_cell!(#[kani::unwind(6)] #[kani::stub(eval_filter_expr, stub_eval_filter_expr)] #[kani::stub(collect_emitted_event, stub_collect_emitted_event)] #[kani::stub(call_user_function, stub_call_user_function)] c10_id_add_zero_l_bool, "C10/fold_binary/identity/0+x/x=bool", (b: bool), { check_fold_binary(BinOp::Add, Expr::Int(0), Expr::Bool(b)) });
vpv_cell!(#[kani::unwind(6)] #[kani::stub(eval_filter_expr, stub_eval_filter_expr)] #[kani::stub(collect_emitted_event, stub_collect_emitted_event)] #[kani::stub(call_user_function, stub_call_user_function)] c10_id_add_zero_l_null, "C10/fold_binary/identity/0+x/x=null", (), { check_fold_binary(BinOp::Add, Expr::Int(0), Expr::Null) });
vpv_cell!(#[kani::unwind(6)] #[kani::stub(eval_filter_expr, stub_eval_filter_expr)] #[kani::stub(collect_emitted_event, stub_collect_emitted_event)] #[kani::stub(call_user_function, stub_call_user_function)] c10_id_sub_zero_r_float, "C10/fold_binary/identity/x-0/x=float", (f: f64), { check_fold_binary(BinOp::Sub, Expr::Float(f), Expr::Int(0)) });
vpv_cell!(#[kani::stub(eval_filter_expr, stub_eval_filter_expr)] #[kani::stub(collect_emitted_event, stub_collect_emitted_event)] #[kani::stub(call_user_function, stub_call_user_function)] #[kani::unwind(6)] c10_id_sub_zero_r_str, "C10/fold_binary/identity/x-0/x=str", (), { check_fold_binary(BinOp::Sub, Expr::Str(String::from("ab")), Expr::Int(0)) });
vpv_cell!(#[kani::unwind(6)] #[kani::stub(eval_filter_expr, stub_eval_filter_expr)] #[kani::stub(collect_emitted_event, stub_collect_emitted_event)] #[kani::stub(call_user_function, stub_call_user_function)] c10_id_sub_zero_r_bool, "C10/fold_binary/identity/x-0/x=bool", (b: bool), { check_fold_binary(BinOp::Sub, Expr::Bool(b), Expr::Int(0)) });
vpv_cell!(#[kani::unwind(6)] #[kani::stub(eval_filter_expr, stub_eval_filter_expr)] #[kani::stub(collect_emitted_event, stub_collect_emitted_event)] #[kani::stub(call_user_function, stub_call_user_function)] c10_id_sub_zero_r_null, "C10/fold_binary/identity/x-0/x=null", (), { check_fold_binary(BinOp::Sub, Expr::Null, Expr::Int(0)) });
vpv_cell!(#[kani::unwind(6)] #[kani::stub(eval_filter_expr, stub_eval_filter_expr)] #[kani::stub(collect_emitted_event, stub_collect_emitted_event)] #[kani::stub(call_user_function, stub_call_user_function)] c10_id_div_one_r_float, "C10/fold_binary/identity/x/1/x=float", (f: f64), { check_fold_binary(BinOp::Div, Expr::Float(f), Expr::Int(1)) });
vpv_cell!(#[kani::stub(eval_filter_expr, stub_eval_filter_expr)] #[kani::stub(collect_emitted_event, stub_collect_emitted_event)] #[kani::stub(call_user_function, stub_call_user_function)] #[kani::unwind(6)] c10_id_div_one_r_str, "C10/fold_binary/identity/x/1/x=str", (), { check_fold_binary(BinOp::Div, Expr::Str(String::from("ab")), Expr::Int(1)) });
vpv_cell!(#[kani::unwind(6)] #[kani::stub(eval_filter_expr, stub_eval_filter_expr)] #[kani::stub(collect_emitted_event, stub_collect_emitted_event)] #[kani::stub(call_user_function, stub_call_user_function)] c10_id_div_one_r_bool, "C10/fold_binary/identity/x/1/x=bool", (b: bool), { check_fold_binary(BinOp::Div, Expr::Bool(b), Expr::Int(1)) });
vpv_cell!(#[kani::unwind(6)] #[kani::stub(eval_filter_expr, stub_eval_filter_expr)] #[kani::stub(collect_emitted_event, stub_collect_emitted_event)] #[kani::stub(call_user_function, stub_call_user_function)] c10_id_div_one_r_null, "C10/fold_binary/identity/x/1/x=null", (), { check_fold_binary(BinOp::Div, Expr::Null, Expr::Int(1)) });
vpv_cell!(#[kani::unwind(6)] #[kani::stub(eval_filter_expr, stub_eval_filter_expr)] #[kani::stub(collect_emitted_event, stub_collect_emitted_event)] #[kani::stub(call_user_function, stub_call_user_function)] c10_passthrough_lt, "C10/fold_binary/reconstruct/Lt/Int-Int", (a: i64, b: i64), { check_fold_binary(BinOp::Lt, Expr::Int(a), Expr::Int(b)) });
vpv_cell!(#[kani::unwind(6)] #[kani::stub(eval_filter_expr, stub_eval_filter_expr)] #[kani::stub(collect_emitted_event, stub_collect_emitted_event)] #[kani::stub(call_user_function, stub_call_user_function)] c10_passthrough_eq, "C10/fold_binary/reconstruct/Eq/Int-Int", (a: i64, b: i64), { check_fold_binary(BinOp::Eq, Expr::Int(a), Expr::Int(b)) });
vpv_cell!(#[kani::unwind(6)] #[kani::stub(eval_filter_expr, stub_eval_filter_expr)] #[kani::stub(collect_emitted_event, stub_collect_emitted_event)] #[kani::stub(call_user_function, stub_call_user_function)] c10_passthrough_and, "C10/fold_binary/reconstruct/And/Int-Int", (a: i64, b: i64), { check_fold_binary(BinOp::And, Expr::Int(a), Expr::Int(b)) });
vpv_cell!(#[kani::unwind(6)] #[kani::stub(eval_filter_expr, stub_eval_filter_expr)] #[kani::stub(collect_emitted_event, stub_collect_emitted_event)] #[kani::stub(call_user_function, stub_call_user_function)] c10_neg_int, "C10/fold_unary/Neg/Int", (a: i64), { check_fold_unary(UnaryOp::Neg, Expr::Int(a)) });
vpv_cell!(#[kani::unwind(6)] #[kani::stub(eval_filter_expr, stub_eval_filter_expr)] #[kani::stub(collect_emitted_event, stub_collect_emitted_event)] #[kani::stub(call_user_function, stub_call_user_function)] c10_neg_float, "C10/fold_unary/Neg/Float", (a: f64), { check_fold_unary(UnaryOp::Neg, Expr::Float(a)) });
vpv_cell!(#[kani::unwind(6)] #[kani::stub(eval_filter_expr, stub_eval_filter_expr)] #[kani::stub(collect_emitted_event, stub_collect_emitted_event)] #[kani::stub(call_user_function, stub_call_user_function)] c10_not_bool, "C10/fold_unary/Not/Bool", (a: bool), { check_fold_unary(UnaryOp::Not, Expr::Bool(a)) });
// the evaluator's literal arms: evaluating a literal yields that literal's value (used by value_of_folded)
vpv_cell!(#[kani::stub(eval_filter_expr, stub_eval_filter_expr)] #[kani::stub(collect_emitted_event, stub_collect_emitted_event)] #[kani::stub(call_user_function, stub_call_user_function)] #[kani::unwind(6)] c10_evlit_int, "C10/eval-literal/Int", (a: i64), { let v = ev(&Expr::Int(a)); let ok = match &v { Some(Value::Int(x)) => *x == a, _ => false }; std::mem::forget(v); ok });
vpv_cell!(#[kani::stub(eval_filter_expr, stub_eval_filter_expr)] #[kani::stub(collect_emitted_event, stub_collect_emitted_event)] #[kani::stub(call_user_function, stub_call_user_function)] #[kani::unwind(6)] c10_evlit_float, "C10/eval-literal/Float", (a: f64), { let v = ev(&Expr::Float(a)); let ok = match &v { Some(Value::Float(x)) => x.to_bits() == a.to_bits(), _ => false }; std::mem::forget(v); ok });
vpv_cell!(#[kani::stub(eval_filter_expr, stub_eval_filter_expr)] #[kani::stub(collect_emitted_event, stub_collect_emitted_event)] #[kani::stub(call_user_function, stub_call_user_function)] #[kani::unwind(6)] c10_evlit_bool, "C10/eval-literal/Bool", (a: bool), { let v = ev(&Expr::Bool(a)); let ok = match &v { Some(Value::Bool(x)) => *x == a, _ => false }; std::mem::forget(v); ok });
vpv_cell!(#[kani::stub(eval_filter_expr, stub_eval_filter_expr)] #[kani::stub(collect_emitted_event, stub_collect_emitted_event)] #[kani::stub(call_user_function, stub_call_user_function)] #[kani::unwind(6)] c10_evlit_null, "C10/eval-literal/Null", (), { let v = ev(&Expr::Null); let ok = matches!(&v, Some(Value::Null)); std::mem::forget(v); ok });

// ---- whole expressions through fold_expr: BOUNDED STAND-IN (native enumeration).  The Kani cells above cover one rewrite arm at a time on literal operands;
// rewrites that depend on the SHAPE of nested operands, or on the run-time type of a field, are out of their reach (a tree whose shape is symbolic cannot
// be evaluated by CBMC, and fields need hash-map lookups).  Natively: every expression tree of depth <= 3 (one operand a leaf at the top level) over 10
// operators and 17 leaves — int / float / string / bool / null literals and the fields x (float 0.3), big (float 1e16), i (int 7), top (int i64::MAX),
// s (string), m (missing) — is folded by the REAL fold_expr and both versions are evaluated by the REAL evaluator on an event carrying those fields:
// same value, or the same absence of a value.  Trees containing one of the eight identity patterns with a non-literal-int operand (x*0, x*1, x+0, x-0,
// x/1 and mirrors) are skipped: those are the known findings of the identity cells above.
#[cfg(vpv_replay)]
pub fn c10_ev_with_fields(e: &Expr) -> Option<Value> {
    let evt = Event::new_at("E", chrono::DateTime::<chrono::Utc>::UNIX_EPOCH).with_field("x", Value::Float(0.3)).with_field("big", Value::Float(1e16))
        .with_field("i", Value::Int(7)).with_field("top", Value::Int(i64::MAX)).with_field("s", Value::Str("ab".into()));
    let ctx = SequenceContext::default();
    let fns: FxHashMap<String, UserFunction> = FxHashMap::default();
    let binds: FxHashMap<String, Value> = FxHashMap::default();
    eval_expr_with_functions(e, &evt, &ctx, &fns, &binds)
}
#[cfg(vpv_replay)]
pub fn c10_has_identity_pattern(e: &Expr) -> bool {
    match e {
        Expr::Binary { op, left, right } => {
            // the identity arms look at the operands AFTER their own folding: `(0 + 0) + s` is `0 + s` by the time the arm is tried
            let (fl, fr) = (__vpv_fold_expr((**left).clone()), __vpv_fold_expr((**right).clone()));
            let lit = |x: &Expr, v: i64| matches!(x, Expr::Int(k) if *k == v);
            let is_int_lit = |x: &Expr| matches!(x, Expr::Int(_));
            let here = match op {
                BinOp::Mul => (lit(&fr, 0) || lit(&fr, 1)) && !is_int_lit(&fl) || (lit(&fl, 0) || lit(&fl, 1)) && !is_int_lit(&fr),
                BinOp::Add => lit(&fr, 0) && !is_int_lit(&fl) || lit(&fl, 0) && !is_int_lit(&fr),
                BinOp::Sub => lit(&fr, 0) && !is_int_lit(&fl),
                BinOp::Div => lit(&fr, 1) && !is_int_lit(&fl),
                _ => false,
            };
            here || c10_has_identity_pattern(left) || c10_has_identity_pattern(right)
        }
        Expr::Unary { expr, .. } => c10_has_identity_pattern(expr),
        _ => false,
    }
}
vpv_native!(c10_fold_expr_trees, "C10/fold_expr/folded and unfolded expression trees of depth <= 3 evaluate to the same value or the same absence of a value, on an event with float, int, string and missing fields (native enumeration: 10 operators x 17 leaves)", {
    let leaves: Vec<Expr> = vec![Expr::Int(0), Expr::Int(1), Expr::Int(2), Expr::Int(-1), Expr::Int(5), Expr::Int(i64::MAX), Expr::Int(i64::MIN), Expr::Float(0.0), Expr::Float(1.5), Expr::Float(0.1),
        Expr::Str(String::from("a")), Expr::Bool(true), Expr::Null, Expr::Ident(String::from("x")), Expr::Ident(String::from("big")), Expr::Ident(String::from("i")), Expr::Ident(String::from("top")),
        Expr::Ident(String::from("s")), Expr::Ident(String::from("m"))];
    let ops = [BinOp::Add, BinOp::Sub, BinOp::Mul, BinOp::Div, BinOp::Mod, BinOp::Lt, BinOp::Ge, BinOp::Eq, BinOp::And, BinOp::Or];
    let mut level2: Vec<Expr> = Vec::new();
    for op in ops { for l in &leaves { for r in &leaves { level2.push(bin(op, l.clone(), r.clone())); } } }
    for l in &leaves { level2.push(Expr::Unary { op: UnaryOp::Neg, expr: Box::new(l.clone()) }); }
    let mut ok = true; let mut shown = 0; let mut n = 0u64; let mut skipped = 0u64;
    let mut check = |e: Expr, n: &mut u64, skipped: &mut u64| -> bool {
        if c10_has_identity_pattern(&e) { *skipped += 1; return true; }
        *n += 1;
        vpv_enum_try(|| format!("{:?}", e), || {
            let folded = __vpv_fold_expr(e.clone());
            let (a, b) = (c10_ev_with_fields(&e), c10_ev_with_fields(&folded));
            let same_v = match (&a, &b) { (None, None) => true, (Some(x), Some(y)) => x == y, _ => false };
            if !same_v { println!("  unfolded evaluates to {:?}, folded ({:?}) to {:?}", a, folded, b); }
            same_v
        })
    };
    for e in &level2 { if !check(e.clone(), &mut n, &mut skipped) { ok = false; shown += 1; if shown >= 4 { return false; } } }
    for op in ops { for inner in &level2 { for l in &leaves {
        if !check(bin(op, inner.clone(), l.clone()), &mut n, &mut skipped) { ok = false; shown += 1; if shown >= 4 { return false; } }
        if !check(bin(op, l.clone(), inner.clone()), &mut n, &mut skipped) { ok = false; shown += 1; if shown >= 4 { return false; } }
    } } }
    println!("  {} trees compared, {} skipped (identity patterns = known findings)", n, skipped);
    ok
});
vpv_replay_table!(c10_lit_add_int_int, c10_lit_sub_int_int, c10_lit_mul_int_int, c10_lit_div_int_int, c10_lit_mod_int_int, c10_lit_add_float_float, c10_lit_sub_float_float, c10_lit_mul_float_float, c10_lit_div_float_float, c10_lit_mod_float_float, c10_lit_pow_float_float, c10_lit_add_int_float, c10_lit_add_float_int, c10_lit_sub_int_float, c10_lit_sub_float_int, c10_lit_mul_int_float, c10_lit_mul_float_int, c10_lit_div_int_float, c10_lit_div_float_int, c10_id_mul_zero_r_float, c10_id_mul_zero_r_str, c10_id_mul_zero_r_bool, c10_id_mul_zero_r_null, c10_id_mul_zero_l_float, c10_id_mul_zero_l_str, c10_id_mul_zero_l_bool, c10_id_mul_zero_l_null, c10_id_mul_one_r_float, c10_id_mul_one_r_str, c10_id_mul_one_r_bool, c10_id_mul_one_r_null, c10_id_mul_one_l_float, c10_id_mul_one_l_str, c10_id_mul_one_l_bool, c10_id_mul_one_l_null, c10_id_add_zero_r_float, c10_id_add_zero_r_str, c10_id_add_zero_r_bool, c10_id_add_zero_r_null, c10_id_add_zero_l_float, c10_id_add_zero_l_str, c10_id_add_zero_l_bool, c10_id_add_zero_l_null, c10_id_sub_zero_r_float, c10_id_sub_zero_r_str, c10_id_sub_zero_r_bool, c10_id_sub_zero_r_null, c10_id_div_one_r_float, c10_id_div_one_r_str, c10_id_div_one_r_bool, c10_id_div_one_r_null, c10_passthrough_lt, c10_passthrough_eq, c10_passthrough_and, c10_neg_int, c10_neg_float, c10_not_bool, c10_evlit_int, c10_evlit_float, c10_evlit_bool, c10_evlit_null, c10_fold_expr_trees);
