// C30 — rate limiting: the retry-after / no-panic half (appended to varpulis-cluster/src/rate_limit.rs)
// The admission bound (burst + rate*T) is decided only through its inductive step: refill / try_consume at CONCRETE rates (1 and 50/s;
// `elapsed * rate` over two symbolic f64s is outside CBMC's practical reach, and Verus has no float support) and a native bounded
// enumeration of RateLimiter::check at rate 0.

#[cfg(kani)] pub fn stub_now() -> Instant { unsafe { std::mem::transmute::<(i64, u32), Instant>((1, 0)) } }
pub fn an_instant() -> Instant {
    #[cfg(kani)] { stub_now() }
    #[cfg(not(kani))] { Instant::now() }
}
/// a bucket in an arbitrary state satisfying the representation invariant 0 <= tokens <= max_tokens
pub fn mk(burst: u32, rate: u32, tokens: f64) -> TokenBucket {
    TokenBucket { tokens, last_update: an_instant(), max_tokens: burst as f64, refill_rate: rate as f64 }
}
pub fn inv(b: &TokenBucket) -> bool { b.tokens >= 0.0 && b.tokens <= b.max_tokens }

vpv_cell!(#[kani::stub(std::time::Instant::now, stub_now)] c30_new, "C30/TokenBucket::new/establishes 0 <= tokens == max_tokens, rate as configured",
  (burst: u32, rate: u32), {
    let b = TokenBucket::new(burst, rate);
    inv(&b) && b.tokens == burst as f64 && b.max_tokens == burst as f64 && b.refill_rate == rate as f64 });

vpv_cell!(c30_config_new, "C30/RateLimitConfig::new/burst = 2*rate saturating, enabled", (r: u32), {
    let c = RateLimitConfig::new(r);
    c.enabled && c.requests_per_second == r && c.burst_size == r.saturating_mul(2) && c.max_tracked_ips >= 1 });

vpv_cell!(c30_remaining, "C30/TokenBucket::remaining/no-panic and <= burst for every bucket state", (burst: u32, rate: u32, tokens: f64), {
    let b = mk(burst, rate, tokens);
    if !inv(&b) { return true; }
    b.remaining() <= burst });

// every accepted configuration (rate 0 included), every bucket state: reset_after returns (no panic) a finite Duration
vpv_cell!(c30_reset_after_rate0, "C30/TokenBucket::reset_after/rate 0: returns a finite Duration without panicking", (burst: u32, tokens: f64), {
    let b = mk(burst, 0, tokens);
    if !inv(&b) { return true; }
    let d = b.reset_after();
    d <= Duration::MAX && (tokens < 1.0 || d == Duration::ZERO) });

vpv_cell!(c30_reset_after_full, "C30/TokenBucket::reset_after/tokens >= 1: zero wait", (burst: u32, rate: u32, tokens: f64), {
    let b = mk(burst, rate, tokens);
    if !inv(&b) || tokens < 1.0 { return true; }
    b.reset_after() == Duration::ZERO });

// rate >= 1, tokens < 1: wait = (1 - tokens) / rate  in (0, 1] seconds; needs a symbolic f64 division
vpv_cell!(c30_reset_after_positive_rate, "C30/TokenBucket::reset_after/rate >= 1, tokens < 1: no panic and wait <= 1 s", (burst: u32, rate: u32, tokens: f64), {
    let b = mk(burst, rate, tokens);
    if !inv(&b) || tokens >= 1.0 || rate == 0 { return true; }
    b.reset_after() <= Duration::from_secs(1) });

// bounded stand-in for the previous cell should the symbolic division not finish: concrete rates 1..=50 step
vpv_cell!(c30_reset_after_rate1, "C30/TokenBucket::reset_after/rate = 1 (concrete), tokens < 1: no panic and wait <= 1 s", (burst: u32, tokens: f64), {
    let b = mk(burst, 1, tokens);
    if !inv(&b) || tokens >= 1.0 { return true; }
    b.reset_after() <= Duration::from_secs(1) });
vpv_cell!(c30_reset_after_rate50, "C30/TokenBucket::reset_after/rate = 50 (concrete), tokens < 1: no panic and wait <= 1 s", (burst: u32, tokens: f64), {
    let b = mk(burst, 50, tokens);
    if !inv(&b) || tokens >= 1.0 { return true; }
    b.reset_after() <= Duration::from_secs(1) });


// ---- refill: the step every admission decision rests on.  `elapsed * rate` over two symbolic f64s is outside CBMC's reach (measured), so the
// rate is concrete per cell (1 and 50 tokens/s) and everything else is symbolic: bucket state, burst, elapsed time (secs, nanos).
// Contract: refill moves the reference time to `now`, keeps 0 <= tokens <= max_tokens, never removes tokens, and credits at most elapsed * rate.
#[cfg(kani)] pub fn stub_now_late() -> Instant { unsafe { std::mem::transmute::<(i64, u32), Instant>((1_000_000, 0)) } }
pub fn now_for_refill() -> Instant {
    #[cfg(kani)] { stub_now_late() }
    #[cfg(not(kani))] { Instant::now() }
}
/// under Kani the clock is exact; natively `Instant::now()` inside refill is a little later than the one taken before the call
pub fn slack_secs() -> f64 { if cfg!(kani) { 0.0 } else { 1.0 } }
pub fn refill_step(burst: u32, rate: u32, tokens: f64, back_secs: u32) -> bool {
    if back_secs > 900_000 { return true; }
    let before = now_for_refill();
    let last = match before.checked_sub(Duration::new(back_secs as u64, 0)) { Some(t) => t, None => return true };
    let mut b = TokenBucket { tokens, last_update: last, max_tokens: burst as f64, refill_rate: rate as f64 };
    if !inv(&b) { return true; }
    b.refill();
    // the reference time moves to `now`; the invariant is kept; tokens are never removed; never more than elapsed * rate is credited
    b.last_update >= before && inv(&b) && b.tokens >= tokens && b.tokens <= tokens + (back_secs as f64 + slack_secs()) * rate as f64
}
// MEASURED: Kani cells for refill / try_consume at concrete rates 1 and 50 with symbolic bucket state and a symbolic whole number of elapsed seconds did
// not finish in 900 s of CBMC each in three successive formulations (u64 -> f64 conversion, multiply, add, min over symbolic 64-bit floats, plus the
// comparison against a recomputed bound), so the refill step is covered by the native stand-in below only.
// sub-second elapsed times and repeated refills, natively (bounded stand-in): a bucket whose reference time lies d in the past is refilled TWICE in a
// row; the total credit must stay below (time actually passed since the reference time) * rate — a refill that credits without advancing its reference time credits the same interval twice.
vpv_native!(c30_refill_twice, "C30/TokenBucket::refill/two refills in a row credit an interval once: elapsed * rate <= credit <= (time actually passed) * rate (native enumeration: rates 1, 3, 50; elapsed 0..=2.5 s in 100 ms steps; 4 token levels)", {
    let mut ok = true; let mut shown = 0;
    for rate in [1u32, 3, 50] { for step in 0..=25u64 { for t0 in [0.0f64, 0.25, 1.0, 7.5] {
        let good = vpv_enum_try(|| format!("rate={}/s burst=1000 tokens={} reference time {} ms in the past, refill(); refill()", rate, t0, step * 100), || {
            let d = Duration::from_millis(step * 100);
            let last = match Instant::now().checked_sub(d) { Some(t) => t, None => return true };
            let mut b = TokenBucket { tokens: t0, last_update: last, max_tokens: 1000.0, refill_rate: rate as f64 };
            b.refill(); b.refill();
            let after = Instant::now();
            let credit = b.tokens - t0;
            // everything credited was credited before `after`: no slack is needed, the wall clock itself gives the bound
            let bound = after.duration_since(last).as_secs_f64() * rate as f64 + 1e-6;
            if !(credit <= bound && credit >= d.as_secs_f64() * rate as f64 - 1e-9) { println!("  credited {} tokens, elapsed*rate = {}", credit, d.as_secs_f64() * rate as f64); }
            credit <= bound && credit >= d.as_secs_f64() * rate as f64 - 1e-9 && inv(&b)
        });
        if !good { ok = false; shown += 1; if shown >= 3 { return false; } }
    } } }
    ok
});

// ---- RateLimiter::check (tokio RwLock + HashMap + Instant::now): BOUNDED STAND-IN (native enumeration), rate 0 so that time does not matter.
// 1..=3 clients, table capacity >= number of clients (so no client may ever be evicted), burst 0..=2, every request sequence of length <= 7:
// each client is admitted exactly min(burst, number of its requests) times — a tracked client never gets a fresh bucket — and every rejection
// carries a retry-after value (no panic).
vpv_native!(c30_check_tracked_clients, "C30/RateLimiter::check/a tracked client is admitted at most `burst` times at rate 0 and never loses its bucket (native enumeration: <= 3 clients, capacity >= clients, burst 0..=2, sequences <= 7)", {
    let rt = tokio::runtime::Builder::new_current_thread().enable_all().build().unwrap();
    let ips: [IpAddr; 3] = [IpAddr::from([10, 0, 0, 1]), IpAddr::from([10, 0, 0, 2]), IpAddr::from([10, 0, 0, 3])];
    let mut ok = true; let mut shown = 0;
    for nclients in 1..=3usize { for cap in nclients..=3usize { for burst in 0..=2u32 { for len in 0..=7usize {
        let total = nclients.pow(len as u32);
        for code in 0..total {
            let mut seq = Vec::new(); let mut c = code; for _ in 0..len { seq.push(c % nclients); c /= nclients; }
            let good = vpv_enum_try(|| format!("clients={} capacity={} burst={} rate=0 request sequence (client ids)={:?}", nclients, cap, burst, seq), || {
                let mut cfg = RateLimitConfig::with_burst(0, burst); cfg.max_tracked_ips = cap;
                let rl = RateLimiter::new(cfg);
                let mut admitted = [0u32; 3]; let mut asked = [0u32; 3];
                for &who in &seq {
                    let t0 = Instant::now(); while Instant::now() == t0 {}
                    asked[who] += 1;
                    match rt.block_on(rl.check(ips[who])) { RateLimitResult::Allowed { .. } => admitted[who] += 1, RateLimitResult::Limited { retry_after } => { let _ = retry_after.as_secs(); } }
                }
                (0..nclients).all(|i| admitted[i] == asked[i].min(burst))
            });
            if !good { ok = false; shown += 1; if shown >= 3 { return false; } }
        }
    } } } }
    ok
});
vpv_replay_table!(c30_new, c30_config_new, c30_remaining, c30_reset_after_rate0, c30_reset_after_full, c30_reset_after_positive_rate, c30_reset_after_rate1, c30_reset_after_rate50, c30_refill_twice, c30_check_tracked_clients);
