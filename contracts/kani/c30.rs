// C30 — rate limiting: the retry-after / no-panic half (appended to varpulis-cluster/src/rate_limit.rs)
// NOT decided here: the admission bound (burst + rate*T) — it rests on `elapsed * rate` over symbolic f64s, which is
// outside CBMC's practical reach and outside Verus (no float support).

#[cfg(kani)] pub fn stub_now() -> Instant { unsafe { std::mem::transmute::<(i64, u32), Instant>((1, 0)) } }
pub fn an_instant() -> Instant {
    #[cfg(kani)] { stub_now() }
    #[cfg(not(kani))] { Instant::now() }
}
/// a bucket in an arbitrary state satisfying the representation invariant 0 <= tokens <= max_tokens
pub fn mk(burst: u32, rate: u32, tokens: f64) -> TokenBucket {
    TokenBucket { tokens, last_update: an_instant(), max_tokens: burst as f64, refill_rate: rate as f64 }
}
pub fn inv(b: &TokenBucket) -> bool { b.tokens >= 0.0 && b.tokens <= b.max_tokens }

vpv_cell!(#[kani::stub(std::time::Instant::now, stub_now)] c30_new, "C30/TokenBucket::new/establishes 0 <= tokens == max_tokens, rate as configured",
  (burst: u32, rate: u32), {
    let b = TokenBucket::new(burst, rate);
    inv(&b) && b.tokens == burst as f64 && b.max_tokens == burst as f64 && b.refill_rate == rate as f64 });

vpv_cell!(c30_config_new, "C30/RateLimitConfig::new/burst = 2*rate saturating, enabled", (r: u32), {
    let c = RateLimitConfig::new(r);
    c.enabled && c.requests_per_second == r && c.burst_size == r.saturating_mul(2) && c.max_tracked_ips >= 1 });

vpv_cell!(c30_remaining, "C30/TokenBucket::remaining/no-panic and <= burst for every bucket state", (burst: u32, rate: u32, tokens: f64), {
    let b = mk(burst, rate, tokens);
    if !inv(&b) { return true; }
    b.remaining() <= burst });

// every accepted configuration (rate 0 included), every bucket state: reset_after returns (no panic) a finite Duration
vpv_cell!(c30_reset_after_rate0, "C30/TokenBucket::reset_after/rate 0: returns a finite Duration without panicking", (burst: u32, tokens: f64), {
    let b = mk(burst, 0, tokens);
    if !inv(&b) { return true; }
    let d = b.reset_after();
    d <= Duration::MAX && (tokens < 1.0 || d == Duration::ZERO) });

vpv_cell!(c30_reset_after_full, "C30/TokenBucket::reset_after/tokens >= 1: zero wait", (burst: u32, rate: u32, tokens: f64), {
    let b = mk(burst, rate, tokens);
    if !inv(&b) || tokens < 1.0 { return true; }
    b.reset_after() == Duration::ZERO });

// rate >= 1, tokens < 1: wait = (1 - tokens) / rate  in (0, 1] seconds; needs a symbolic f64 division
vpv_cell!(c30_reset_after_positive_rate, "C30/TokenBucket::reset_after/rate >= 1, tokens < 1: no panic and wait <= 1 s", (burst: u32, rate: u32, tokens: f64), {
    let b = mk(burst, rate, tokens);
    if !inv(&b) || tokens >= 1.0 || rate == 0 { return true; }
    b.reset_after() <= Duration::from_secs(1) });

// bounded stand-in for the previous cell should the symbolic division not finish: concrete rates 1..=50 step
vpv_cell!(c30_reset_after_rate1, "C30/TokenBucket::reset_after/rate = 1 (concrete), tokens < 1: no panic and wait <= 1 s", (burst: u32, tokens: f64), {
    let b = mk(burst, 1, tokens);
    if !inv(&b) || tokens >= 1.0 { return true; }
    b.reset_after() <= Duration::from_secs(1) });
vpv_cell!(c30_reset_after_rate50, "C30/TokenBucket::reset_after/rate = 50 (concrete), tokens < 1: no panic and wait <= 1 s", (burst: u32, tokens: f64), {
    let b = mk(burst, 50, tokens);
    if !inv(&b) || tokens >= 1.0 { return true; }
    b.reset_after() <= Duration::from_secs(1) });

vpv_replay_table!(c30_new, c30_config_new, c30_remaining, c30_reset_after_rate0, c30_reset_after_full, c30_reset_after_positive_rate, c30_reset_after_rate1, c30_reset_after_rate50);
