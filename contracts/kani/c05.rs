// C05 — pattern state stays within bounds: the non-partitioned backpressure step (appended to varpulis-runtime/src/sase.rs)
// Step contract of SaseEngine::handle_backpressure: if runs.len() <= max_runs before, then runs.len() <= max_runs after, for
// every strategy; a run is added only if the strategy says so; and the call does not panic.  By induction over run starts the
// number of partial matches never exceeds max_runs (non-partitioned engines).

#[cfg(kani)] pub fn stub_now() -> Instant { unsafe { std::mem::transmute::<(i64, u32), Instant>((1, 0)) } }
#[cfg(kani)] pub fn stub_elapsed(_i: &Instant) -> Duration { Duration::new(1, 0) }
#[cfg(kani)] pub fn stub_format(_a: core::fmt::Arguments<'_>) -> String { String::new() }
pub fn an_instant(k: u8) -> Instant {
    #[cfg(kani)] { unsafe { std::mem::transmute::<(i64, u32), Instant>((1 + k as i64, 0)) } }
    #[cfg(not(kani))] { let _ = k; Instant::now() }
}
pub fn a_run(k: u8, depth: u8) -> Run {
    Run { current_state: 0, stack: Vec::new(), captured: FxHashMap::default(), started_at: an_instant(k), deadline: None,
          event_time_started_at: None, event_time_deadline: None, partition_key: None, invalidated: depth & 1 == 1,
          pending_negations: Vec::new(), and_state: None, kleene_capture: None }
}
/// an engine assembled field by field (its constructor builds hash-map indexes); only the fields handle_backpressure touches matter
pub fn engine(max_runs: usize, bp: BackpressureStrategy, nruns: usize, created: u64, dropped: u64, evicted: u64) -> SaseEngine {
    let mut runs = Vec::new();
    let mut i = 0u8;
    while (i as usize) < nruns { runs.push(a_run(i, i)); i += 1; }
    SaseEngine {
        nfa: Nfa { states: Vec::new(), start_state: 0, accept_states: Vec::new() },
        runs, max_runs, strategy: SelectionStrategy::SkipTillAnyMatch, partition_by: None, partitioned_runs: FxHashMap::default(),
        global_negations: Vec::new(), time_semantics: TimeSemantics::ProcessingTime, watermark: None,
        max_out_of_orderness: Duration::from_secs(0), max_timestamp: None, backpressure: bp,
        total_runs_dropped: dropped, total_runs_evicted: evicted, total_runs_created: created, total_runs_completed: 0,
        event_type_index: EventTypeIndex::default(), event_time_manager: None, event_time_config: EventTimeConfig::default(),
        metrics: Arc::new(SaseMetrics::default()), instrumentation_enabled: false, max_kleene_events: 20, max_enumeration_results: 10_000,
        last_cleanup: an_instant(0), cleanup_interval: Duration::from_secs(1),
    }
}
pub fn step(max_runs: usize, bp: BackpressureStrategy, nruns: usize, created: u64, dropped: u64, evicted: u64) -> bool {
    if max_runs == 0 || max_runs > 3 || nruns > max_runs { return true; }
    if dropped == u64::MAX || evicted == u64::MAX { return true; }          // machine range of the statistics counters
    let mut e = engine(max_runs, bp, nruns, created, dropped, evicted);
    let (added, warn) = e.handle_backpressure(a_run(7, 0));
    let n = e.runs.len();
    let ok = n <= max_runs && (nruns < max_runs) <= (added && n == nruns + 1) && (!added) <= (n == nruns) && n >= nruns;
    std::mem::forget(warn); std::mem::forget(e);
    ok
}

vpv_cell!(#[kani::stub(std::time::Instant::now, stub_now)] #[kani::stub(std::time::Instant::elapsed, stub_elapsed)] #[kani::stub(alloc::fmt::format, stub_format)] #[kani::unwind(6)]
  c05_bp_drop, "C05/handle_backpressure/Drop/runs.len() <= max_runs preserved, no panic (max_runs 1..=3)", (max_runs: usize, nruns: usize, c: u64, d: u64, ev: u64), {
    step(max_runs, BackpressureStrategy::Drop, nruns, c, d, ev) });
vpv_cell!(#[kani::stub(std::time::Instant::now, stub_now)] #[kani::stub(std::time::Instant::elapsed, stub_elapsed)] #[kani::stub(alloc::fmt::format, stub_format)] #[kani::unwind(6)]
  c05_bp_error, "C05/handle_backpressure/Error/runs.len() <= max_runs preserved, no panic (max_runs 1..=3)", (max_runs: usize, nruns: usize, c: u64, d: u64, ev: u64), {
    step(max_runs, BackpressureStrategy::Error, nruns, c, d, ev) });
vpv_cell!(#[kani::stub(std::time::Instant::now, stub_now)] #[kani::stub(std::time::Instant::elapsed, stub_elapsed)] #[kani::stub(alloc::fmt::format, stub_format)] #[kani::unwind(6)]
  c05_bp_evict_oldest, "C05/handle_backpressure/EvictOldest/runs.len() <= max_runs preserved, no panic (max_runs 1..=3)", (max_runs: usize, nruns: usize, c: u64, d: u64, ev: u64), {
    step(max_runs, BackpressureStrategy::EvictOldest, nruns, c, d, ev) });
vpv_cell!(#[kani::stub(std::time::Instant::now, stub_now)] #[kani::stub(std::time::Instant::elapsed, stub_elapsed)] #[kani::stub(alloc::fmt::format, stub_format)] #[kani::unwind(6)]
  c05_bp_evict_least, "C05/handle_backpressure/EvictLeastProgress/runs.len() <= max_runs preserved, no panic (max_runs 1..=3)", (max_runs: usize, nruns: usize, c: u64, d: u64, ev: u64), {
    step(max_runs, BackpressureStrategy::EvictLeastProgress, nruns, c, d, ev) });
vpv_cell!(#[kani::stub(std::time::Instant::now, stub_now)] #[kani::stub(std::time::Instant::elapsed, stub_elapsed)] #[kani::stub(alloc::fmt::format, stub_format)] #[kani::unwind(6)]
  c05_bp_sample, "C05/handle_backpressure/Sample{rate}/runs.len() <= max_runs preserved, no panic (max_runs 1..=3, every f64 rate)", (max_runs: usize, nruns: usize, c: u64, d: u64, ev: u64, rate: f64), {
    step(max_runs, BackpressureStrategy::Sample { rate }, nruns, c, d, ev) });

vpv_replay_table!(c05_bp_drop, c05_bp_error, c05_bp_evict_oldest, c05_bp_evict_least, c05_bp_sample);
