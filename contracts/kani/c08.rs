// C08 — numeric comparisons are mathematically correct (appended to engine/evaluator.rs)
// Contract: for every numeric operand pair the comparison result is Some(Bool(op(spec_cmp)))
// and Some(Bool(false)) when a NaN is involved.  spec_cmp is the exact mathematical order.
use core::cmp::Ordering;
use varpulis_core::ast::{BinOp, Expr};

#[derive(Clone, Copy, Debug)]
pub enum Num { I(i64), F(f64) }

/// Exact mathematical comparison of an i64 with an f64 (None iff NaN).  TRUSTED SPEC.
/// Written at the bit level on purpose, independently of any float rounding operation: a finite f64 is
/// (-1)^s * m * 2^e with integer m < 2^53; the comparison is done in i128 integer arithmetic, which is exact.
pub fn spec_cmp_if(a: i64, f: f64) -> Option<Ordering> {
    let bits = f.to_bits();
    let neg = (bits >> 63) == 1;
    let ebits = ((bits >> 52) & 0x7ff) as i32;
    let frac = bits & 0x000f_ffff_ffff_ffff;
    if ebits == 0x7ff {
        if frac != 0 { return None; }                                   // NaN
        return Some(if neg { Ordering::Greater } else { Ordering::Less }); // a vs -inf / +inf
    }
    // value = sign * m * 2^e
    let (m, e): (i128, i32) = if ebits == 0 { (frac as i128, -1074) } else { ((frac | (1u64 << 52)) as i128, ebits - 1075) };
    let sm: i128 = if neg { -m } else { m };
    let a = a as i128;
    if e >= 0 {
        if e > 11 {                      // |f| >= 2^52 * 2^12 = 2^64 > every |i64|   (m >= 2^52 here since ebits > 0)
            return Some(if neg { Ordering::Greater } else { Ordering::Less });
        }
        Some(a.cmp(&(sm << e)))          // |sm << e| < 2^53 * 2^11 = 2^64: fits i128
    } else {
        let k = -e;                      // f = sm / 2^k
        if k >= 64 {                     // |f| < 2^53 / 2^64 < 1 : f is strictly between -1 and 1
            if a != 0 { return Some(a.cmp(&0)); }
            return Some(0i128.cmp(&sm)); // a == 0: sign of f decides (f == +-0 -> Equal)
        }
        Some((a << k).cmp(&sm))          // |a << k| < 2^63 * 2^63: fits i128; multiplying both sides by 2^k > 0
    }
}
pub fn spec_cmp(a: Num, b: Num) -> Option<Ordering> {
    match (a, b) {
        (Num::I(x), Num::I(y)) => Some(x.cmp(&y)),
        (Num::F(x), Num::F(y)) => x.partial_cmp(&y),
        (Num::I(x), Num::F(y)) => spec_cmp_if(x, y),
        (Num::F(x), Num::I(y)) => spec_cmp_if(y, x).map(|o| o.reverse()),
    }
}
pub fn spec_truth(op: &BinOp, a: Num, b: Num) -> bool {
    match (op, spec_cmp(a, b)) {
        (_, None) => false,
        (BinOp::Lt, Some(o)) => o == Ordering::Less,
        (BinOp::Le, Some(o)) => o != Ordering::Greater,
        (BinOp::Gt, Some(o)) => o == Ordering::Greater,
        (BinOp::Ge, Some(o)) => o != Ordering::Less,
        _ => false,
    }
}
pub fn num_value(n: Num) -> Value { match n { Num::I(x) => Value::Int(x), Num::F(x) => Value::Float(x) } }
pub fn num_expr(n: Num) -> Expr { match n { Num::I(x) => Expr::Int(x), Num::F(x) => Expr::Float(x) } }
pub fn is_bool(r: &Option<Value>, expect: bool) -> bool { matches!(r, Some(Value::Bool(b)) if *b == expect) }

/// `.pattern` context: the real `eval_binary_op`.
pub fn check_binop(op: BinOp, a: Num, b: Num) -> bool {
    let r = eval_binary_op(&op, &num_value(a), &num_value(b));
    is_bool(&r, spec_truth(&op, a, b))
}
/// `.where` / `.emit` / `.having` context: the real `eval_expr_with_functions` on literal operands.
pub fn check_expr(op: BinOp, a: Num, b: Num) -> bool {
    let e = Expr::Binary { op, left: Box::new(num_expr(a)), right: Box::new(num_expr(b)) };
    let ev = Event::new_at("E", chrono::DateTime::<chrono::Utc>::UNIX_EPOCH);
    let ctx = SequenceContext::default();
    let fns: FxHashMap<String, UserFunction> = FxHashMap::default();
    let binds: FxHashMap<String, Value> = FxHashMap::default();
    let r = eval_expr_with_functions(&e, &ev, &ctx, &fns, &binds);
    let ok = is_bool(&r, spec_truth(&op, a, b));
    std::mem::forget(e);
    ok
}
/// `.pattern` context end to end: the real `eval_pattern_expr` on literal operands.
pub fn check_pattern(op: BinOp, a: Num, b: Num) -> bool {
    let e = Expr::Binary { op, left: Box::new(num_expr(a)), right: Box::new(num_expr(b)) };
    let ctx = SequenceContext::default();
    let fns: FxHashMap<String, UserFunction> = FxHashMap::default();
    let vars: FxHashMap<String, Value> = FxHashMap::default();
    let r = eval_pattern_expr(&e, &[], &ctx, &fns, &vars);
    let ok = is_bool(&r, spec_truth(&op, a, b));
    std::mem::forget(e);
    ok
}


/// pattern-step filter context (`A as a where a.x > 1.5`): the SASE kernel compare_values
pub fn check_sase(op: BinOp, a: Num, b: Num) -> bool {
    use crate::sase::CompareOp;
    let c = match op { BinOp::Lt => CompareOp::Lt, BinOp::Le => CompareOp::Le, BinOp::Gt => CompareOp::Gt, _ => CompareOp::Ge };
    crate::sase::__vpv_compare_values(&num_value(a), &num_value(b), c) == spec_truth(&op, a, b)
}

// Stubs (Kani only): paths that reach thread_local!+Drop crash kani-compiler 0.68; none of them is
// on the path of a Binary{literal, literal} expression (a cover in each cell shows the arm is reached).
#[cfg(kani)] pub fn stub_eval_filter_expr(_e: &Expr, _ev: &Event, _c: &SequenceContext) -> Option<Value> { None }
#[cfg(kani)] pub fn stub_collect_emitted_event(_e: Event) {}
#[cfg(kani)] pub fn stub_call_user_function(_f: &UserFunction, _a: &[Value], _e: &Event, _c: &SequenceContext, _fs: &FxHashMap<String, UserFunction>) -> Option<Value> { None }

vpv_cell!(c08_binop_lt_int_int, "C08/eval_binary_op/Lt/Int-Int", (a: i64, b: i64), { check_binop(BinOp::Lt, Num::I(a), Num::I(b)) });
vpv_cell!(c08_binop_lt_int_float, "C08/eval_binary_op/Lt/Int-Float", (a: i64, b: f64), { check_binop(BinOp::Lt, Num::I(a), Num::F(b)) });
vpv_cell!(c08_binop_lt_float_int, "C08/eval_binary_op/Lt/Float-Int", (a: f64, b: i64), { check_binop(BinOp::Lt, Num::F(a), Num::I(b)) });
vpv_cell!(c08_binop_lt_float_float, "C08/eval_binary_op/Lt/Float-Float", (a: f64, b: f64), { check_binop(BinOp::Lt, Num::F(a), Num::F(b)) });
vpv_cell!(c08_binop_le_int_int, "C08/eval_binary_op/Le/Int-Int", (a: i64, b: i64), { check_binop(BinOp::Le, Num::I(a), Num::I(b)) });
vpv_cell!(c08_binop_le_int_float, "C08/eval_binary_op/Le/Int-Float", (a: i64, b: f64), { check_binop(BinOp::Le, Num::I(a), Num::F(b)) });
vpv_cell!(c08_binop_le_float_int, "C08/eval_binary_op/Le/Float-Int", (a: f64, b: i64), { check_binop(BinOp::Le, Num::F(a), Num::I(b)) });
vpv_cell!(c08_binop_le_float_float, "C08/eval_binary_op/Le/Float-Float", (a: f64, b: f64), { check_binop(BinOp::Le, Num::F(a), Num::F(b)) });
vpv_cell!(c08_binop_gt_int_int, "C08/eval_binary_op/Gt/Int-Int", (a: i64, b: i64), { check_binop(BinOp::Gt, Num::I(a), Num::I(b)) });
vpv_cell!(c08_binop_gt_int_float, "C08/eval_binary_op/Gt/Int-Float", (a: i64, b: f64), { check_binop(BinOp::Gt, Num::I(a), Num::F(b)) });
vpv_cell!(c08_binop_gt_float_int, "C08/eval_binary_op/Gt/Float-Int", (a: f64, b: i64), { check_binop(BinOp::Gt, Num::F(a), Num::I(b)) });
vpv_cell!(c08_binop_gt_float_float, "C08/eval_binary_op/Gt/Float-Float", (a: f64, b: f64), { check_binop(BinOp::Gt, Num::F(a), Num::F(b)) });
vpv_cell!(c08_binop_ge_int_int, "C08/eval_binary_op/Ge/Int-Int", (a: i64, b: i64), { check_binop(BinOp::Ge, Num::I(a), Num::I(b)) });
vpv_cell!(c08_binop_ge_int_float, "C08/eval_binary_op/Ge/Int-Float", (a: i64, b: f64), { check_binop(BinOp::Ge, Num::I(a), Num::F(b)) });
vpv_cell!(c08_binop_ge_float_int, "C08/eval_binary_op/Ge/Float-Int", (a: f64, b: i64), { check_binop(BinOp::Ge, Num::F(a), Num::I(b)) });
vpv_cell!(c08_binop_ge_float_float, "C08/eval_binary_op/Ge/Float-Float", (a: f64, b: f64), { check_binop(BinOp::Ge, Num::F(a), Num::F(b)) });
vpv_cell!(#[kani::stub(eval_filter_expr, stub_eval_filter_expr)] #[kani::stub(collect_emitted_event, stub_collect_emitted_event)] #[kani::stub(call_user_function, stub_call_user_function)] c08_expr_lt_int_int, "C08/eval_expr_with_functions/Lt/Int-Int", (a: i64, b: i64), { check_expr(BinOp::Lt, Num::I(a), Num::I(b)) });
vpv_cell!(#[kani::stub(eval_filter_expr, stub_eval_filter_expr)] #[kani::stub(collect_emitted_event, stub_collect_emitted_event)] #[kani::stub(call_user_function, stub_call_user_function)] c08_expr_lt_int_float, "C08/eval_expr_with_functions/Lt/Int-Float", (a: i64, b: f64), { check_expr(BinOp::Lt, Num::I(a), Num::F(b)) });
vpv_cell!(#[kani::stub(eval_filter_expr, stub_eval_filter_expr)] #[kani::stub(collect_emitted_event, stub_collect_emitted_event)] #[kani::stub(call_user_function, stub_call_user_function)] c08_expr_lt_float_int, "C08/eval_expr_with_functions/Lt/Float-Int", (a: f64, b: i64), { check_expr(BinOp::Lt, Num::F(a), Num::I(b)) });
vpv_cell!(#[kani::stub(eval_filter_expr, stub_eval_filter_expr)] #[kani::stub(collect_emitted_event, stub_collect_emitted_event)] #[kani::stub(call_user_function, stub_call_user_function)] c08_expr_lt_float_float, "C08/eval_expr_with_functions/Lt/Float-Float", (a: f64, b: f64), { check_expr(BinOp::Lt, Num::F(a), Num::F(b)) });
vpv_cell!(#[kani::stub(eval_filter_expr, stub_eval_filter_expr)] #[kani::stub(collect_emitted_event, stub_collect_emitted_event)] #[kani::stub(call_user_function, stub_call_user_function)] c08_expr_le_int_int, "C08/eval_expr_with_functions/Le/Int-Int", (a: i64, b: i64), { check_expr(BinOp::Le, Num::I(a), Num::I(b)) });
vpv_cell!(#[kani::stub(eval_filter_expr, stub_eval_filter_expr)] #[kani::stub(collect_emitted_event, stub_collect_emitted_event)] #[kani::stub(call_user_function, stub_call_user_function)] c08_expr_le_int_float, "C08/eval_expr_with_functions/Le/Int-Float", (a: i64, b: f64), { check_expr(BinOp::Le, Num::I(a), Num::F(b)) });
vpv_cell!(#[kani::stub(eval_filter_expr, stub_eval_filter_expr)] #[kani::stub(collect_emitted_event, stub_collect_emitted_event)] #[kani::stub(call_user_function, stub_call_user_function)] c08_expr_le_float_int, "C08/eval_expr_with_functions/Le/Float-Int", (a: f64, b: i64), { check_expr(BinOp::Le, Num::F(a), Num::I(b)) });
vpv_cell!(#[kani::stub(eval_filter_expr, stub_eval_filter_expr)] #[kani::stub(collect_emitted_event, stub_collect_emitted_event)] #[kani::stub(call_user_function, stub_call_user_function)] c08_expr_le_float_float, "C08/eval_expr_with_functions/Le/Float-Float", (a: f64, b: f64), { check_expr(BinOp::Le, Num::F(a), Num::F(b)) });
vpv_cell!(#[kani::stub(eval_filter_expr, stub_eval_filter_expr)] #[kani::stub(collect_emitted_event, stub_collect_emitted_event)] #[kani::stub(call_user_function, stub_call_user_function)] c08_expr_gt_int_int, "C08/eval_expr_with_functions/Gt/Int-Int", (a: i64, b: i64), { check_expr(BinOp::Gt, Num::I(a), Num::I(b)) });
vpv_cell!(#[kani::stub(eval_filter_expr, stub_eval_filter_expr)] #[kani::stub(collect_emitted_event, stub_collect_emitted_event)] #[kani::stub(call_user_function, stub_call_user_function)] c08_expr_gt_int_float, "C08/eval_expr_with_functions/Gt/Int-Float", (a: i64, b: f64), { check_expr(BinOp::Gt, Num::I(a), Num::F(b)) });
vpv_cell!(#[kani::stub(eval_filter_expr, stub_eval_filter_expr)] #[kani::stub(collect_emitted_event, stub_collect_emitted_event)] #[kani::stub(call_user_function, stub_call_user_function)] c08_expr_gt_float_int, "C08/eval_expr_with_functions/Gt/Float-Int", (a: f64, b: i64), { check_expr(BinOp::Gt, Num::F(a), Num::I(b)) });
vpv_cell!(#[kani::stub(eval_filter_expr, stub_eval_filter_expr)] #[kani::stub(collect_emitted_event, stub_collect_emitted_event)] #[kani::stub(call_user_function, stub_call_user_function)] c08_expr_gt_float_float, "C08/eval_expr_with_functions/Gt/Float-Float", (a: f64, b: f64), { check_expr(BinOp::Gt, Num::F(a), Num::F(b)) });
vpv_cell!(#[kani::stub(eval_filter_expr, stub_eval_filter_expr)] #[kani::stub(collect_emitted_event, stub_collect_emitted_event)] #[kani::stub(call_user_function, stub_call_user_function)] c08_expr_ge_int_int, "C08/eval_expr_with_functions/Ge/Int-Int", (a: i64, b: i64), { check_expr(BinOp::Ge, Num::I(a), Num::I(b)) });
vpv_cell!(#[kani::stub(eval_filter_expr, stub_eval_filter_expr)] #[kani::stub(collect_emitted_event, stub_collect_emitted_event)] #[kani::stub(call_user_function, stub_call_user_function)] c08_expr_ge_int_float, "C08/eval_expr_with_functions/Ge/Int-Float", (a: i64, b: f64), { check_expr(BinOp::Ge, Num::I(a), Num::F(b)) });
vpv_cell!(#[kani::stub(eval_filter_expr, stub_eval_filter_expr)] #[kani::stub(collect_emitted_event, stub_collect_emitted_event)] #[kani::stub(call_user_function, stub_call_user_function)] c08_expr_ge_float_int, "C08/eval_expr_with_functions/Ge/Float-Int", (a: f64, b: i64), { check_expr(BinOp::Ge, Num::F(a), Num::I(b)) });
vpv_cell!(#[kani::stub(eval_filter_expr, stub_eval_filter_expr)] #[kani::stub(collect_emitted_event, stub_collect_emitted_event)] #[kani::stub(call_user_function, stub_call_user_function)] c08_expr_ge_float_float, "C08/eval_expr_with_functions/Ge/Float-Float", (a: f64, b: f64), { check_expr(BinOp::Ge, Num::F(a), Num::F(b)) });
vpv_cell!(c08_pattern_lt_int_int, "C08/eval_pattern_expr/Lt/Int-Int", (a: i64, b: i64), { check_pattern(BinOp::Lt, Num::I(a), Num::I(b)) });
vpv_cell!(c08_pattern_lt_int_float, "C08/eval_pattern_expr/Lt/Int-Float", (a: i64, b: f64), { check_pattern(BinOp::Lt, Num::I(a), Num::F(b)) });
vpv_cell!(c08_pattern_lt_float_int, "C08/eval_pattern_expr/Lt/Float-Int", (a: f64, b: i64), { check_pattern(BinOp::Lt, Num::F(a), Num::I(b)) });
vpv_cell!(c08_pattern_lt_float_float, "C08/eval_pattern_expr/Lt/Float-Float", (a: f64, b: f64), { check_pattern(BinOp::Lt, Num::F(a), Num::F(b)) });
vpv_cell!(c08_pattern_le_int_int, "C08/eval_pattern_expr/Le/Int-Int", (a: i64, b: i64), { check_pattern(BinOp::Le, Num::I(a), Num::I(b)) });
vpv_cell!(c08_pattern_le_int_float, "C08/eval_pattern_expr/Le/Int-Float", (a: i64, b: f64), { check_pattern(BinOp::Le, Num::I(a), Num::F(b)) });
vpv_cell!(c08_pattern_le_float_int, "C08/eval_pattern_expr/Le/Float-Int", (a: f64, b: i64), { check_pattern(BinOp::Le, Num::F(a), Num::I(b)) });
vpv_cell!(c08_pattern_le_float_float, "C08/eval_pattern_expr/Le/Float-Float", (a: f64, b: f64), { check_pattern(BinOp::Le, Num::F(a), Num::F(b)) });
vpv_cell!(c08_pattern_gt_int_int, "C08/eval_pattern_expr/Gt/Int-Int", (a: i64, b: i64), { check_pattern(BinOp::Gt, Num::I(a), Num::I(b)) });
vpv_cell!(c08_pattern_gt_int_float, "C08/eval_pattern_expr/Gt/Int-Float", (a: i64, b: f64), { check_pattern(BinOp::Gt, Num::I(a), Num::F(b)) });
vpv_cell!(c08_pattern_gt_float_int, "C08/eval_pattern_expr/Gt/Float-Int", (a: f64, b: i64), { check_pattern(BinOp::Gt, Num::F(a), Num::I(b)) });
vpv_cell!(c08_pattern_gt_float_float, "C08/eval_pattern_expr/Gt/Float-Float", (a: f64, b: f64), { check_pattern(BinOp::Gt, Num::F(a), Num::F(b)) });
vpv_cell!(c08_pattern_ge_int_int, "C08/eval_pattern_expr/Ge/Int-Int", (a: i64, b: i64), { check_pattern(BinOp::Ge, Num::I(a), Num::I(b)) });
vpv_cell!(c08_pattern_ge_int_float, "C08/eval_pattern_expr/Ge/Int-Float", (a: i64, b: f64), { check_pattern(BinOp::Ge, Num::I(a), Num::F(b)) });
vpv_cell!(c08_pattern_ge_float_int, "C08/eval_pattern_expr/Ge/Float-Int", (a: f64, b: i64), { check_pattern(BinOp::Ge, Num::F(a), Num::I(b)) });
vpv_cell!(c08_pattern_ge_float_float, "C08/eval_pattern_expr/Ge/Float-Float", (a: f64, b: f64), { check_pattern(BinOp::Ge, Num::F(a), Num::F(b)) });
vpv_cell!(c08_binop_ge_iff_gt_or_eq_int_int, "C08/eval_binary_op/Ge<=>Gt-or-equal/Int-Int", (a: i64, b: i64), {
    let (x, y) = (Num::I(a), Num::I(b));
    let ge = eval_binary_op(&BinOp::Ge, &num_value(x), &num_value(y));
    let gt = eval_binary_op(&BinOp::Gt, &num_value(x), &num_value(y));
    let eq = spec_cmp(x, y) == Some(Ordering::Equal);
    match (ge, gt) { (Some(Value::Bool(ge)), Some(Value::Bool(gt))) => ge == (gt || eq), _ => false }
});
vpv_cell!(c08_binop_ge_iff_gt_or_eq_int_float, "C08/eval_binary_op/Ge<=>Gt-or-equal/Int-Float", (a: i64, b: f64), {
    let (x, y) = (Num::I(a), Num::F(b));
    let ge = eval_binary_op(&BinOp::Ge, &num_value(x), &num_value(y));
    let gt = eval_binary_op(&BinOp::Gt, &num_value(x), &num_value(y));
    let eq = spec_cmp(x, y) == Some(Ordering::Equal);
    match (ge, gt) { (Some(Value::Bool(ge)), Some(Value::Bool(gt))) => ge == (gt || eq), _ => false }
});
vpv_cell!(c08_binop_ge_iff_gt_or_eq_float_int, "C08/eval_binary_op/Ge<=>Gt-or-equal/Float-Int", (a: f64, b: i64), {
    let (x, y) = (Num::F(a), Num::I(b));
    let ge = eval_binary_op(&BinOp::Ge, &num_value(x), &num_value(y));
    let gt = eval_binary_op(&BinOp::Gt, &num_value(x), &num_value(y));
    let eq = spec_cmp(x, y) == Some(Ordering::Equal);
    match (ge, gt) { (Some(Value::Bool(ge)), Some(Value::Bool(gt))) => ge == (gt || eq), _ => false }
});
vpv_cell!(c08_binop_ge_iff_gt_or_eq_float_float, "C08/eval_binary_op/Ge<=>Gt-or-equal/Float-Float", (a: f64, b: f64), {
    let (x, y) = (Num::F(a), Num::F(b));
    let ge = eval_binary_op(&BinOp::Ge, &num_value(x), &num_value(y));
    let gt = eval_binary_op(&BinOp::Gt, &num_value(x), &num_value(y));
    let eq = spec_cmp(x, y) == Some(Ordering::Equal);
    match (ge, gt) { (Some(Value::Bool(ge)), Some(Value::Bool(gt))) => ge == (gt || eq), _ => false }
});
vpv_cell!(c08_sase_lt_int_int, "C08/sase::compare_values/Lt/Int-Int", (a: i64, b: i64), { check_sase(BinOp::Lt, Num::I(a), Num::I(b)) });
vpv_cell!(c08_sase_lt_int_float, "C08/sase::compare_values/Lt/Int-Float", (a: i64, b: f64), { check_sase(BinOp::Lt, Num::I(a), Num::F(b)) });
vpv_cell!(c08_sase_lt_float_int, "C08/sase::compare_values/Lt/Float-Int", (a: f64, b: i64), { check_sase(BinOp::Lt, Num::F(a), Num::I(b)) });
vpv_cell!(c08_sase_lt_float_float, "C08/sase::compare_values/Lt/Float-Float", (a: f64, b: f64), { check_sase(BinOp::Lt, Num::F(a), Num::F(b)) });
vpv_cell!(c08_sase_le_int_int, "C08/sase::compare_values/Le/Int-Int", (a: i64, b: i64), { check_sase(BinOp::Le, Num::I(a), Num::I(b)) });
vpv_cell!(c08_sase_le_int_float, "C08/sase::compare_values/Le/Int-Float", (a: i64, b: f64), { check_sase(BinOp::Le, Num::I(a), Num::F(b)) });
vpv_cell!(c08_sase_le_float_int, "C08/sase::compare_values/Le/Float-Int", (a: f64, b: i64), { check_sase(BinOp::Le, Num::F(a), Num::I(b)) });
vpv_cell!(c08_sase_le_float_float, "C08/sase::compare_values/Le/Float-Float", (a: f64, b: f64), { check_sase(BinOp::Le, Num::F(a), Num::F(b)) });
vpv_cell!(c08_sase_gt_int_int, "C08/sase::compare_values/Gt/Int-Int", (a: i64, b: i64), { check_sase(BinOp::Gt, Num::I(a), Num::I(b)) });
vpv_cell!(c08_sase_gt_int_float, "C08/sase::compare_values/Gt/Int-Float", (a: i64, b: f64), { check_sase(BinOp::Gt, Num::I(a), Num::F(b)) });
vpv_cell!(c08_sase_gt_float_int, "C08/sase::compare_values/Gt/Float-Int", (a: f64, b: i64), { check_sase(BinOp::Gt, Num::F(a), Num::I(b)) });
vpv_cell!(c08_sase_gt_float_float, "C08/sase::compare_values/Gt/Float-Float", (a: f64, b: f64), { check_sase(BinOp::Gt, Num::F(a), Num::F(b)) });
vpv_cell!(c08_sase_ge_int_int, "C08/sase::compare_values/Ge/Int-Int", (a: i64, b: i64), { check_sase(BinOp::Ge, Num::I(a), Num::I(b)) });
vpv_cell!(c08_sase_ge_int_float, "C08/sase::compare_values/Ge/Int-Float", (a: i64, b: f64), { check_sase(BinOp::Ge, Num::I(a), Num::F(b)) });
vpv_cell!(c08_sase_ge_float_int, "C08/sase::compare_values/Ge/Float-Int", (a: f64, b: i64), { check_sase(BinOp::Ge, Num::F(a), Num::I(b)) });
vpv_cell!(c08_sase_ge_float_float, "C08/sase::compare_values/Ge/Float-Float", (a: f64, b: f64), { check_sase(BinOp::Ge, Num::F(a), Num::F(b)) });
vpv_replay_table!(c08_sase_lt_int_int, c08_sase_lt_int_float, c08_sase_lt_float_int, c08_sase_lt_float_float, c08_sase_le_int_int, c08_sase_le_int_float, c08_sase_le_float_int, c08_sase_le_float_float, c08_sase_gt_int_int, c08_sase_gt_int_float, c08_sase_gt_float_int, c08_sase_gt_float_float, c08_sase_ge_int_int, c08_sase_ge_int_float, c08_sase_ge_float_int, c08_sase_ge_float_float, c08_binop_lt_int_int, c08_binop_lt_int_float, c08_binop_lt_float_int, c08_binop_lt_float_float, c08_binop_le_int_int, c08_binop_le_int_float, c08_binop_le_float_int, c08_binop_le_float_float, c08_binop_gt_int_int, c08_binop_gt_int_float, c08_binop_gt_float_int, c08_binop_gt_float_float, c08_binop_ge_int_int, c08_binop_ge_int_float, c08_binop_ge_float_int, c08_binop_ge_float_float, c08_expr_lt_int_int, c08_expr_lt_int_float, c08_expr_lt_float_int, c08_expr_lt_float_float, c08_expr_le_int_int, c08_expr_le_int_float, c08_expr_le_float_int, c08_expr_le_float_float, c08_expr_gt_int_int, c08_expr_gt_int_float, c08_expr_gt_float_int, c08_expr_gt_float_float, c08_expr_ge_int_int, c08_expr_ge_int_float, c08_expr_ge_float_int, c08_expr_ge_float_float, c08_pattern_lt_int_int, c08_pattern_lt_int_float, c08_pattern_lt_float_int, c08_pattern_lt_float_float, c08_pattern_le_int_int, c08_pattern_le_int_float, c08_pattern_le_float_int, c08_pattern_le_float_float, c08_pattern_gt_int_int, c08_pattern_gt_int_float, c08_pattern_gt_float_int, c08_pattern_gt_float_float, c08_pattern_ge_int_int, c08_pattern_ge_int_float, c08_pattern_ge_float_int, c08_pattern_ge_float_float, c08_binop_ge_iff_gt_or_eq_int_int, c08_binop_ge_iff_gt_or_eq_int_float, c08_binop_ge_iff_gt_or_eq_float_int, c08_binop_ge_iff_gt_or_eq_float_float);
