// C43 — (appended to varpulis-lsp/src/hover.rs)
// Bounded exhaustive enumeration: every document of at most 2 characters over the alphabet {a _ space newline é 1}
// (43 documents, includes a 2-byte character and newlines) x every position 0..=len+1.  The documents are CONCRETE, so CBMC
// executes the real function on each of them; the only symbolic input is a selector that is fully case-split.
pub const ALPHA: [&str; 6] = ["a", "_", " ", "\n", "\u{e9}", "1"];
pub fn doc(k: u8) -> String {
    // 0 -> "", 1..=6 -> one char, 7..=42 -> two chars
    let mut s = String::new();
    if k >= 1 && k <= 6 { s.push_str(ALPHA[(k - 1) as usize]); }
    if k >= 7 && k <= 42 { let j = k - 7; s.push_str(ALPHA[(j / 6) as usize]); s.push_str(ALPHA[(j % 6) as usize]); }
    s
}
pub fn newlines(s: &str) -> usize { let mut k = 0; for c in s.bytes() { if c == b'\n' { k += 1; } } k }

vpv_cell!(c43_get_word_at_position, "C43/hover::get_word_at_position/no-panic; a returned word is non-empty and not longer than the document (43 documents x 3 lines x 4 columns)", (), {
    let mut k: u8 = 0; let mut ok = true;
    while k <= 42 {
        let d = doc(k);
        let mut line: u32 = 0;
        while line <= 2 {
            let mut ch: u32 = 0;
            while ch <= 3 {
                let w = get_word_at_position(&d, Position { line, character: ch });
                ok = ok && (match &w { Some(s) => !s.is_empty() && s.len() <= d.len(), None => true });
                ch += 1;
            }
            line += 1;
        }
        k += 1;
    }
    ok
});
vpv_replay_table!(c43_get_word_at_position);
