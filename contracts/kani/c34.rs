// C34 — event routing: route matching (appended to varpulis-cluster/src/routing.rs)
// Contract of event_type_matches against a byte-level specification, and of find_target_pipeline:
// first matching route in declaration order, else the group's first pipeline.
use crate::pipeline_group::{PipelineGroupSpec, PipelinePlacement, GroupStatus};

#[cfg(kani)] pub fn stub_now() -> std::time::Instant { unsafe { std::mem::transmute::<(i64, u32), std::time::Instant>((1, 0)) } }
pub fn an_instant() -> std::time::Instant {
    #[cfg(kani)] { stub_now() }
    #[cfg(not(kani))] { std::time::Instant::now() }
}
/// ASCII string of length n <= 3 from symbolic bytes
pub fn mkstr(n: u8, b: [u8; 3]) -> String {
    let mut s = String::new();
    let mut i = 0;
    while i < 3 { if (i as u8) < n { s.push((b[i] & 0x7f) as char); } i += 1; }
    s
}
/// SPEC: "*" matches everything; "p*" matches every type starting with p; anything else must be equal
pub fn spec_matches(et: &[u8], p: &[u8]) -> bool {
    if p.len() == 1 && p[0] == b'*' { return true; }
    if !p.is_empty() && p[p.len() - 1] == b'*' {
        let k = p.len() - 1;
        if et.len() < k { return false; }
        let mut i = 0;
        while i < k { if et[i] != p[i] { return false; } i += 1; }
        true
    } else {
        if et.len() != p.len() { return false; }
        let mut i = 0;
        while i < p.len() { if et[i] != p[i] { return false; } i += 1; }
        true
    }
}
// std::collections::HashMap::new() seeds RandomState from a thread-local, which Kani cannot model: fixed keys instead
#[cfg(kani)] pub fn stub_random_state() -> std::hash::RandomState { unsafe { std::mem::transmute::<(u64, u64), std::hash::RandomState>((0, 0)) } }
pub fn pp(name: &str) -> PipelinePlacement { PipelinePlacement { name: String::from(name), source: String::new(), worker_affinity: None, replicas: 1, partition_key: None } }
pub fn route(to: &str, pats: Vec<String>) -> InterPipelineRoute { InterPipelineRoute { from_pipeline: String::new(), to_pipeline: String::from(to), event_types: pats, nats_subject: None } }
pub fn group(pipelines: Vec<PipelinePlacement>, routes: Vec<InterPipelineRoute>) -> DeployedPipelineGroup {
    DeployedPipelineGroup { id: String::new(), name: String::new(), spec: PipelineGroupSpec { name: String::new(), pipelines, routes },
        placements: HashMap::new(), replica_groups: HashMap::new(), created_at: an_instant(), status: GroupStatus::Running }
}

vpv_cell!(#[kani::unwind(6)] c34_matches_len2, "C34/event_type_matches/agrees with the spec for all ASCII strings of length <= 2",
  (n1: u8, b1: [u8; 3], n2: u8, b2: [u8; 3]), {
    if n1 > 2 || n2 > 2 { return true; }
    let (et, p) = (mkstr(n1, b1), mkstr(n2, b2));
    let ok = event_type_matches(&et, &p) == spec_matches(et.as_bytes(), p.as_bytes());
    std::mem::forget(et); std::mem::forget(p);
    ok });

vpv_cell!(#[kani::unwind(7)] c34_matches_len3__thorough, "C34/event_type_matches/agrees with the spec for all ASCII strings of length <= 3",
  (n1: u8, b1: [u8; 3], n2: u8, b2: [u8; 3]), {
    if n1 > 3 || n2 > 3 { return true; }
    let (et, p) = (mkstr(n1, b1), mkstr(n2, b2));
    let ok = event_type_matches(&et, &p) == spec_matches(et.as_bytes(), p.as_bytes());
    std::mem::forget(et); std::mem::forget(p);
    ok });

// two routes with one 1-character pattern each: the FIRST matching route wins, otherwise the first pipeline
vpv_cell!(#[kani::stub(std::hash::RandomState::new, stub_random_state)] #[kani::unwind(8)] c34_find_target_two_routes, "C34/find_target_pipeline/first matching route in declaration order, else the first pipeline (2 routes x 1 pattern, 1-char strings)",
  (e: u8, p1: u8, p2: u8), {
    let et = mkstr(1, [e, 0, 0]);
    let (s1, s2) = (mkstr(1, [p1, 0, 0]), mkstr(1, [p2, 0, 0]));
    let m1 = spec_matches(et.as_bytes(), s1.as_bytes());
    let m2 = spec_matches(et.as_bytes(), s2.as_bytes());
    let g = group(vec![pp("first"), pp("other")], vec![route("r1", vec![s1]), route("r2", vec![s2])]);
    let want = if m1 { "r1" } else if m2 { "r2" } else { "first" };
    let ok = find_target_pipeline(&g, &et) == Some(want);
    std::mem::forget(g); std::mem::forget(et);
    ok });

vpv_cell!(#[kani::stub(std::hash::RandomState::new, stub_random_state)] #[kani::unwind(8)] c34_find_target_two_patterns, "C34/find_target_pipeline/patterns of one route are tried in order; no pipelines and no match -> None",
  (e: u8, p1: u8, p2: u8, has_pipeline: bool), {
    let et = mkstr(1, [e, 0, 0]);
    let (s1, s2) = (mkstr(1, [p1, 0, 0]), mkstr(1, [p2, 0, 0]));
    let m = spec_matches(et.as_bytes(), s1.as_bytes()) || spec_matches(et.as_bytes(), s2.as_bytes());
    let g = group(if has_pipeline { vec![pp("first")] } else { vec![] }, vec![route("r1", vec![s1, s2])]);
    let got = find_target_pipeline(&g, &et);
    let ok = if m { got == Some("r1") } else if has_pipeline { got == Some("first") } else { got.is_none() };
    std::mem::forget(g); std::mem::forget(et);
    ok });


// ---- ReplicaGroup::select_replica: BOUNDED STAND-IN (native enumeration).  The function contains a tracing::warn!, and every function
// reaching tracing's thread-local dispatcher crashes kani-compiler 0.68, so it cannot be put under Kani.
// Round-robin: for 1..=6 replicas, every start value of the counter in 0..=2100 (and a few large ones), over EVERY run of up to 40 consecutive
// injections the replica loads differ by at most one and each injection picks an existing replica.  Hash-key: the same key value always
// selects the same replica (singly, repeatedly, interleaved with other keys), a missing key always selects one fixed replica.
vpv_native!(c34_select_replica_round_robin, "C34/ReplicaGroup::select_replica/round-robin: over any run of injections replica loads differ by at most one (native enumeration: 1..=6 replicas x 2104 counter starts x runs <= 40)", {
    use crate::pipeline_group::{ReplicaGroup, PartitionStrategy};
    let empty = serde_json::Map::new();
    let mut ok = true; let mut shown = 0;
    for n in 1..=6usize {
        let names: Vec<String> = (0..n).map(|i| format!("p#{}", i)).collect();
        let mut starts: Vec<usize> = (0..=2100usize).collect();
        starts.extend([4095usize, 65535, 1 << 20, (1 << 32) - 1, (1usize << 32) + 5]);
        for c0 in starts {
            let good = vpv_enum_try(|| format!("replicas={} counter_start={} (round-robin, runs of up to 40 injections)", n, c0), || {
                let g = ReplicaGroup::new(String::from("p"), names.clone(), PartitionStrategy::RoundRobin);
                g.counter.store(c0, std::sync::atomic::Ordering::Relaxed);
                let mut loads = vec![0usize; n];
                for _ in 0..40 {
                    let r = g.select_replica(&empty).to_string();
                    match names.iter().position(|x| *x == r) { Some(i) => loads[i] += 1, None => return false }
                    let (mx, mn) = (*loads.iter().max().unwrap(), *loads.iter().min().unwrap());
                    if mx - mn > 1 { return false; }
                }
                true
            });
            if !good { ok = false; shown += 1; if shown >= 3 { return false; } }
        }
    }
    ok
});
vpv_native!(c34_select_replica_hash_key, "C34/ReplicaGroup::select_replica/hash-key: equal key values always select the same existing replica; a missing key selects one fixed replica (native enumeration: 1..=6 replicas x 64 key values x 3 rounds)", {
    use crate::pipeline_group::{ReplicaGroup, PartitionStrategy};
    let mut ok = true; let mut shown = 0;
    for n in 1..=6usize {
        let names: Vec<String> = (0..n).map(|i| format!("p#{}", i)).collect();
        let good = vpv_enum_try(|| format!("replicas={} (hash-key on field k, 64 key values, 3 interleaved rounds)", n), || {
            let g = ReplicaGroup::new(String::from("p"), names.clone(), PartitionStrategy::HashKey(String::from("k")));
            let keys: Vec<serde_json::Value> = (0..32).map(|i| serde_json::Value::from(i as i64)).chain((0..32).map(|i| serde_json::Value::from(format!("key{}", i)))).collect();
            let mut first: Vec<Option<String>> = vec![None; keys.len()];
            let mut missing: Option<String> = None;
            for _round in 0..3 {
                for (i, k) in keys.iter().enumerate() {
                    let mut f = serde_json::Map::new();
                    f.insert(String::from("k"), k.clone());
                    f.insert(String::from("other"), serde_json::Value::from(i as i64));
                    let r = g.select_replica(&f).to_string();
                    if !names.contains(&r) { return false; }
                    match &first[i] { None => first[i] = Some(r), Some(p) => if *p != r { return false; } }
                    let mut e = serde_json::Map::new();
                    e.insert(String::from("other"), serde_json::Value::from(i as i64));
                    let r2 = g.select_replica(&e).to_string();
                    match &missing { None => missing = Some(r2), Some(p) => if *p != r2 { return false; } }
                }
            }
            true
        });
        if !good { ok = false; shown += 1; if shown >= 3 { return false; } }
    }
    ok
});
vpv_replay_table!(c34_matches_len2, c34_matches_len3__thorough, c34_find_target_two_routes, c34_find_target_two_patterns, c34_select_replica_round_robin, c34_select_replica_hash_key);
