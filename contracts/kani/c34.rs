// C34 — event routing: route matching (appended to varpulis-cluster/src/routing.rs)
// Contract of event_type_matches against a byte-level specification, and of find_target_pipeline:
// first matching route in declaration order, else the group's first pipeline.
use crate::pipeline_group::{PipelineGroupSpec, PipelinePlacement, GroupStatus};

#[cfg(kani)] pub fn stub_now() -> std::time::Instant { unsafe { std::mem::transmute::<(i64, u32), std::time::Instant>((1, 0)) } }
pub fn an_instant() -> std::time::Instant {
    #[cfg(kani)] { stub_now() }
    #[cfg(not(kani))] { std::time::Instant::now() }
}
/// ASCII string of length n <= 3 from symbolic bytes
pub fn mkstr(n: u8, b: [u8; 3]) -> String {
    let mut s = String::new();
    let mut i = 0;
    while i < 3 { if (i as u8) < n { s.push((b[i] & 0x7f) as char); } i += 1; }
    s
}
/// SPEC: "*" matches everything; "p*" matches every type starting with p; anything else must be equal
pub fn spec_matches(et: &[u8], p: &[u8]) -> bool {
    if p.len() == 1 && p[0] == b'*' { return true; }
    if !p.is_empty() && p[p.len() - 1] == b'*' {
        let k = p.len() - 1;
        if et.len() < k { return false; }
        let mut i = 0;
        while i < k { if et[i] != p[i] { return false; } i += 1; }
        true
    } else {
        if et.len() != p.len() { return false; }
        let mut i = 0;
        while i < p.len() { if et[i] != p[i] { return false; } i += 1; }
        true
    }
}
// std::collections::HashMap::new() seeds RandomState from a thread-local, which Kani cannot model: fixed keys instead
#[cfg(kani)] pub fn stub_random_state() -> std::hash::RandomState { unsafe { std::mem::transmute::<(u64, u64), std::hash::RandomState>((0, 0)) } }
pub fn pp(name: &str) -> PipelinePlacement { PipelinePlacement { name: String::from(name), source: String::new(), worker_affinity: None, replicas: 1, partition_key: None } }
pub fn route(to: &str, pats: Vec<String>) -> InterPipelineRoute { InterPipelineRoute { from_pipeline: String::new(), to_pipeline: String::from(to), event_types: pats, nats_subject: None } }
pub fn group(pipelines: Vec<PipelinePlacement>, routes: Vec<InterPipelineRoute>) -> DeployedPipelineGroup {
    DeployedPipelineGroup { id: String::new(), name: String::new(), spec: PipelineGroupSpec { name: String::new(), pipelines, routes },
        placements: HashMap::new(), replica_groups: HashMap::new(), created_at: an_instant(), status: GroupStatus::Running }
}

vpv_cell!(#[kani::unwind(6)] c34_matches_len2, "C34/event_type_matches/agrees with the spec for all ASCII strings of length <= 2",
  (n1: u8, b1: [u8; 3], n2: u8, b2: [u8; 3]), {
    if n1 > 2 || n2 > 2 { return true; }
    let (et, p) = (mkstr(n1, b1), mkstr(n2, b2));
    let ok = event_type_matches(&et, &p) == spec_matches(et.as_bytes(), p.as_bytes());
    std::mem::forget(et); std::mem::forget(p);
    ok });

vpv_cell!(#[kani::unwind(7)] c34_matches_len3__thorough, "C34/event_type_matches/agrees with the spec for all ASCII strings of length <= 3",
  (n1: u8, b1: [u8; 3], n2: u8, b2: [u8; 3]), {
    if n1 > 3 || n2 > 3 { return true; }
    let (et, p) = (mkstr(n1, b1), mkstr(n2, b2));
    let ok = event_type_matches(&et, &p) == spec_matches(et.as_bytes(), p.as_bytes());
    std::mem::forget(et); std::mem::forget(p);
    ok });

// two routes with one 1-character pattern each: the FIRST matching route wins, otherwise the first pipeline
vpv_cell!(#[kani::stub(std::hash::RandomState::new, stub_random_state)] #[kani::unwind(8)] c34_find_target_two_routes, "C34/find_target_pipeline/first matching route in declaration order, else the first pipeline (2 routes x 1 pattern, 1-char strings)",
  (e: u8, p1: u8, p2: u8), {
    let et = mkstr(1, [e, 0, 0]);
    let (s1, s2) = (mkstr(1, [p1, 0, 0]), mkstr(1, [p2, 0, 0]));
    let m1 = spec_matches(et.as_bytes(), s1.as_bytes());
    let m2 = spec_matches(et.as_bytes(), s2.as_bytes());
    let g = group(vec![pp("first"), pp("other")], vec![route("r1", vec![s1]), route("r2", vec![s2])]);
    let want = if m1 { "r1" } else if m2 { "r2" } else { "first" };
    let ok = find_target_pipeline(&g, &et) == Some(want);
    std::mem::forget(g); std::mem::forget(et);
    ok });

vpv_cell!(#[kani::stub(std::hash::RandomState::new, stub_random_state)] #[kani::unwind(8)] c34_find_target_two_patterns, "C34/find_target_pipeline/patterns of one route are tried in order; no pipelines and no match -> None",
  (e: u8, p1: u8, p2: u8, has_pipeline: bool), {
    let et = mkstr(1, [e, 0, 0]);
    let (s1, s2) = (mkstr(1, [p1, 0, 0]), mkstr(1, [p2, 0, 0]));
    let m = spec_matches(et.as_bytes(), s1.as_bytes()) || spec_matches(et.as_bytes(), s2.as_bytes());
    let g = group(if has_pipeline { vec![pp("first")] } else { vec![] }, vec![route("r1", vec![s1, s2])]);
    let got = find_target_pipeline(&g, &et);
    let ok = if m { got == Some("r1") } else if has_pipeline { got == Some("first") } else { got.is_none() };
    std::mem::forget(g); std::mem::forget(et);
    ok });

vpv_replay_table!(c34_matches_len2, c34_matches_len3__thorough, c34_find_target_two_routes, c34_find_target_two_patterns);
