// C43 — (appended to varpulis-lsp/src/completion.rs)
pub const ALPHA: [char; 6] = ['a', '.', ' ', '\n', 'é', '('];
pub fn mkdoc(n: u8, c: [u8; 3]) -> String {
    let mut s = String::new();
    let mut i = 0;
    while i < 3 { if (i as u8) < n { s.push(ALPHA[(c[i] % 6) as usize]); } i += 1; }
    s
}
// completion context for every cursor position in / just past a tiny document (incl. a 2-byte character): no panic
vpv_cell!(#[kani::unwind(24)] c43_completion_context, "C43/completion::get_completion_context/no-panic (docs <= 2 chars incl. a 2-byte char, every position)",
  (n: u8, c: [u8; 3], line: u8, ch: u8), {
    if n > 2 || line > 2 || ch > 4 { return true; }
    let doc = mkdoc(n, c);
    let ctx = get_completion_context(&doc, Position { line: line as u32, character: ch as u32 });
    std::mem::forget(ctx); std::mem::forget(doc);
    true });
vpv_replay_table!(c43_completion_context);
