// C43 — (appended to varpulis-lsp/src/completion.rs)
// Native enumeration cells (bounded stand-ins, DESIGN §2.3): every document of <= 4 characters (<= 5 at the thorough tier: 66 430 documents) over ALPHA (7381 documents; 1-, 2- and
// 3-byte characters, newline, CR) x lines 0..=5 x character columns 0..=6, run natively against the real function.
#[cfg(vpv_replay)]
pub const ALPHA: [char; 9] = ['a', '_', ' ', '\n', '\u{e9}', '1', '.', '(', '\u{4e16}'];
#[cfg(vpv_replay)]
pub fn docs() -> Vec<String> {
    let mut out = vec![String::new()];
    let mut layer = vec![String::new()];
    for _ in 0..(if vpv_thorough() { 5 } else { 4 }) {
        let mut next = Vec::new();
        for d in &layer { for c in ALPHA { let mut e = d.clone(); e.push(c); next.push(e); } }
        out.extend(next.iter().cloned());
        layer = next;
    }
    out.push("\r\n\u{e9}x".to_string());
    out
}
#[cfg(vpv_replay)]
pub fn enum_doc_line_col<F: Fn(&str, u32, u32) -> bool>(f: F) -> bool {
    let mut ok = true; let mut shown = 0;
    for d in docs() { for line in 0..=5u32 { for ch in 0..=6u32 {
        let good = vpv_enum_try(|| format!("document={:?} line={} character={}", d, line, ch), || f(&d, line, ch));
        if !good { ok = false; shown += 1; if shown >= 5 { return false; } }
    } } }
    ok
}

vpv_native!(c43_completion_context, "C43/completion::get_completion_context/no-panic (native enumeration: 7382 documents x 6 lines x 7 character columns)", {
    enum_doc_line_col(|d, line, ch| { let _ctx = get_completion_context(d, Position { line, character: ch }); true })
});
vpv_replay_table!(c43_completion_context);
