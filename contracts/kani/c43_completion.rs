// C43 — (appended to varpulis-lsp/src/completion.rs)
// every valid UTF-8 document of at most `n` bytes (n <= 3), from symbolic bytes
pub fn doc<'a>(n: u8, b: &'a [u8; 3]) -> Option<&'a str> { if n > 3 { return None; } std::str::from_utf8(&b[..n as usize]).ok() }
pub fn newlines(s: &str) -> usize { let mut k = 0; for c in s.bytes() { if c == b'\n' { k += 1; } } k }

// completion context for every cursor position in / just past a tiny document (incl. a 2-byte character): no panic
vpv_cell!(#[kani::unwind(24)] c43_completion_context, "C43/completion::get_completion_context/no-panic (all UTF-8 docs <= 2 bytes, every position)",
  (n: u8, b: [u8; 3], line: u8, ch: u8), {
    if n > 2 || line > 2 || ch > 3 { return true; }
    let Some(d) = doc(n, &b) else { return true; };
    let ctx = get_completion_context(d, Position { line: line as u32, character: ch as u32 });
    std::mem::forget(ctx);
    true });
vpv_replay_table!(c43_completion_context);
