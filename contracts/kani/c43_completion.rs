// C43 — (appended to varpulis-lsp/src/completion.rs)
// Bounded exhaustive enumeration: every document of at most 2 characters over the alphabet {a _ space newline é 1}
// (43 documents, includes a 2-byte character and newlines) x every position 0..=len+1.  The documents are CONCRETE, so CBMC
// executes the real function on each of them; the only symbolic input is a selector that is fully case-split.
pub const ALPHA: [&str; 6] = ["a", ".", " ", "\n", "\u{e9}", "("];
pub fn doc(k: u8) -> String {
    // 0 -> "", 1..=6 -> one char, 7..=42 -> two chars
    let mut s = String::new();
    if k >= 1 && k <= 6 { s.push_str(ALPHA[(k - 1) as usize]); }
    if k >= 7 && k <= 42 { let j = k - 7; s.push_str(ALPHA[(j / 6) as usize]); s.push_str(ALPHA[(j % 6) as usize]); }
    s
}
pub fn newlines(s: &str) -> usize { let mut k = 0; for c in s.bytes() { if c == b'\n' { k += 1; } } k }

vpv_cell!(c43_completion_context, "C43/completion::get_completion_context/no-panic (43 documents over {a . space newline é (} x 3 lines x 4 character columns)", (), {
    let mut k: u8 = 0; let mut ok = true;
    while k <= 42 {
        let d = doc(k);
        let mut line: u32 = 0;
        while line <= 2 {
            let mut ch: u32 = 0;
            while ch <= 3 {
                let ctx = get_completion_context(&d, Position { line, character: ch });
                ok = ok && ({ let _ = &ctx; true });
                ch += 1;
            }
            line += 1;
        }
        k += 1;
    }
    ok
});
vpv_replay_table!(c43_completion_context);
