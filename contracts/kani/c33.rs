// C33 — placement only on available workers (appended to varpulis-cluster/src/lib.rs)
// Contracts: is_available == (Ready with spare capacity); place() returns None iff there is no candidate, else the id
// of ONE OF THE CANDIDATES it was given (round-robin: exactly candidate[counter mod n], counter advanced by one).
use crate::worker::{WorkerCapacity, WorkerNode, WorkerStatus};
use crate::pipeline_group::PipelinePlacement;

#[cfg(kani)] pub fn stub_now() -> std::time::Instant { unsafe { std::mem::transmute::<(i64, u32), std::time::Instant>((1, 0)) } }
pub fn an_instant() -> std::time::Instant {
    #[cfg(kani)] { stub_now() }
    #[cfg(not(kani))] { std::time::Instant::now() }
}
pub fn status(k: u8) -> WorkerStatus { match k % 4 { 0 => WorkerStatus::Registering, 1 => WorkerStatus::Ready, 2 => WorkerStatus::Unhealthy, _ => WorkerStatus::Draining } }
pub fn worker(id: &str, st: u8, cores: usize, running: usize, max: usize) -> WorkerNode {
    WorkerNode { id: WorkerId(String::from(id)), address: String::new(), api_key: String::new(), status: status(st),
                 capacity: WorkerCapacity { cpu_cores: cores, pipelines_running: running, max_pipelines: max },
                 last_heartbeat: an_instant(), assigned_pipelines: Vec::new(), events_processed: 0 }
}
pub fn spec() -> PipelinePlacement { PipelinePlacement { name: String::new(), source: String::new(), worker_affinity: None, replicas: 1, partition_key: None } }

vpv_cell!(c33_is_available, "C33/WorkerNode::is_available/true exactly for Ready with spare capacity (never Unhealthy, Draining, Registering)",
  (st: u8, cores: usize, running: usize, max: usize), {
    let w = worker("w", st, cores, running, max);
    let r = w.is_available();
    let ok = r == (st % 4 == 1 && running < max);
    std::mem::forget(w);
    ok });

vpv_cell!(#[kani::unwind(4)] c33_rr_empty, "C33/RoundRobinPlacement::place/no candidate -> None", (c: usize), {
    let p = RoundRobinPlacement { counter: std::sync::atomic::AtomicUsize::new(c) };
    let r = p.place(&spec(), &[]);
    r.is_none() });

vpv_cell!(#[kani::unwind(4)] c33_rr_two, "C33/RoundRobinPlacement::place/2 candidates: picks candidate[counter mod 2] and advances the counter",
  (c: usize, s0: u8, s1: u8, r0: usize, r1: usize), {
    let (w0, w1) = (worker("a", s0, 1, r0, 8), worker("b", s1, 1, r1, 8));
    let p = RoundRobinPlacement { counter: std::sync::atomic::AtomicUsize::new(c) };
    let r = p.place(&spec(), &[&w0, &w1]);
    let want = if c % 2 == 0 { "a" } else { "b" };
    let ok = matches!(&r, Some(id) if id.0 == want) && p.counter.load(std::sync::atomic::Ordering::Relaxed) == c.wrapping_add(1);
    std::mem::forget(r); std::mem::forget(w0); std::mem::forget(w1);
    ok });

vpv_cell!(#[kani::unwind(4)] c33_rr_one, "C33/RoundRobinPlacement::place/1 candidate: picks it", (c: usize, s0: u8), {
    let w0 = worker("a", s0, 1, 0, 8);
    let p = RoundRobinPlacement { counter: std::sync::atomic::AtomicUsize::new(c) };
    let r = p.place(&spec(), &[&w0]);
    let ok = matches!(&r, Some(id) if id.0 == "a");
    std::mem::forget(r); std::mem::forget(w0);
    ok });

vpv_cell!(#[kani::unwind(4)] c33_ll_empty, "C33/LeastLoadedPlacement::place/no candidate -> None", (), {
    LeastLoadedPlacement.place(&spec(), &[]).is_none() });

vpv_cell!(#[kani::unwind(4)] c33_ll_two, "C33/LeastLoadedPlacement::place/2 candidates with equal core counts: returns one of them, the strictly less loaded one",
  (r0: usize, r1: usize), {
    let (w0, w1) = (worker("a", 1, 1, r0, usize::MAX), worker("b", 1, 1, r1, usize::MAX));
    let r = LeastLoadedPlacement.place(&spec(), &[&w0, &w1]);
    let is_a = matches!(&r, Some(id) if id.0 == "a");
    let is_b = matches!(&r, Some(id) if id.0 == "b");
    let ok = (is_a || is_b) && (r0 == r1 || (is_a == (r0 < r1)));
    std::mem::forget(r); std::mem::forget(w0); std::mem::forget(w1);
    ok });


// ---- Coordinator::{heartbeat, health_sweep, plan_deploy_group}: BOUNDED STAND-INS (native enumeration).  They iterate a HashMap<WorkerId, WorkerNode>,
// read the wall clock and log through tracing — outside Kani's reach (DESIGN §4).
#[cfg(vpv_replay)]
pub fn c33_coord(statuses: &[u8], interval_s: u64, timeout_s: u64) -> crate::coordinator::Coordinator {
    let mut c = crate::coordinator::Coordinator::new();
    c.heartbeat_interval = std::time::Duration::from_secs(interval_s);
    c.heartbeat_timeout = std::time::Duration::from_secs(timeout_s);
    for (i, st) in statuses.iter().enumerate() {
        let id = WorkerId(format!("w{}", i));
        c.register_worker(WorkerNode::new(id.clone(), format!("http://127.0.0.1:1/w{}", i), String::from("key")));
        c.workers.get_mut(&id).unwrap().status = status(*st);
    }
    c
}
#[cfg(vpv_replay)]
pub fn c33_spec(affinity: Option<String>) -> crate::pipeline_group::PipelineGroupSpec {
    crate::pipeline_group::PipelineGroupSpec { name: String::from("g"), routes: Vec::new(),
        pipelines: vec![PipelinePlacement { name: String::from("p"), source: String::from("stream A = X"), worker_affinity: affinity, replicas: 1, partition_key: None }] }
}
vpv_native!(c33_plan_placement, "C33/Coordinator::plan_deploy_group/never places on a non-Ready worker; a pinned pipeline goes to its pinned worker iff that worker is available; fails iff no worker is available (native enumeration: 3 workers x 4 statuses each x 5 affinities)", {
    let mut ok = true; let mut shown = 0;
    for code in 0..64u32 {
        let sts = [(code % 4) as u8, ((code / 4) % 4) as u8, ((code / 16) % 4) as u8];
        for aff in 0..5usize {
            let affinity = match aff { 0 => None, 4 => Some(String::from("missing")), k => Some(format!("w{}", k - 1)) };
            let good = vpv_enum_try(|| format!("worker statuses={:?} affinity={:?}", [status(sts[0]), status(sts[1]), status(sts[2])], affinity), || {
                let c = c33_coord(&sts, 5, 15);
                let avail: Vec<bool> = (0..3).map(|i| status(sts[i]) == WorkerStatus::Ready).collect();
                match c.plan_deploy_group(&c33_spec(affinity.clone())) {
                    Ok(plan) => {
                        if plan.tasks.len() != 1 { return false; }
                        let chosen = plan.tasks[0].worker_id.0.clone();
                        let idx = match chosen.strip_prefix("w").and_then(|x| x.parse::<usize>().ok()) { Some(i) if i < 3 => i, _ => return false };
                        if !avail[idx] { return false; }
                        if (1..=3).contains(&aff) && avail[aff - 1] && idx != aff - 1 { return false; }
                        true
                    }
                    Err(_) => !avail.iter().any(|a| *a),
                }
            });
            if !good { ok = false; shown += 1; if shown >= 3 { return false; } }
        }
    }
    ok
});
vpv_native!(c33_heartbeat_and_sweep, "C33/Coordinator::heartbeat + health_sweep/a Ready worker is marked Unhealthy by a sweep iff its last heartbeat is older than the timeout; a heartbeat revives an Unhealthy worker and changes no other status (native enumeration: 4 statuses x 5 (interval, timeout) settings x heartbeat ages around the timeout)", {
    let mut ok = true; let mut shown = 0;
    let hb = crate::worker::HeartbeatRequest { events_processed: 1, pipelines_running: 0, pipeline_metrics: Vec::new() };
    for (interval_s, timeout_s) in [(5u64, 15u64), (5, 6), (1, 2), (2, 2), (10, 12)] {
        for st in 0..4u8 {
            // ages: well inside, one second inside, one second past the timeout, just short of / past three intervals, far past
            let mut ages: Vec<u64> = vec![0, timeout_s.saturating_sub(1), timeout_s + 1, (3 * interval_s).saturating_sub(1), 3 * interval_s + 1, 10 * timeout_s];
            ages.sort(); ages.dedup();
            ages.retain(|a| *a != timeout_s); // exactly at the threshold the wall clock decides (the real elapsed time is age + a few microseconds)
            for age in ages {
                let good = vpv_enum_try(|| format!("status={:?} heartbeat_interval={}s heartbeat_timeout={}s last heartbeat {}s ago", status(st), interval_s, timeout_s, age), || {
                    let id = WorkerId(String::from("w0"));
                    // sweep
                    let mut c = c33_coord(&[st, 1], interval_s, timeout_s);
                    let t = match std::time::Instant::now().checked_sub(std::time::Duration::from_secs(age)) { Some(t) => t, None => return true };
                    c.workers.get_mut(&id).unwrap().last_heartbeat = t;
                    let r = c.health_sweep();
                    let after = c.workers[&id].status.clone();
                    let expect_unhealthy = status(st) == WorkerStatus::Ready && age > timeout_s;
                    let want = if expect_unhealthy { WorkerStatus::Unhealthy } else { status(st) };
                    if after != want || r.workers_marked_unhealthy.contains(&id) != expect_unhealthy { println!("  after sweep: status {:?}, expected {:?}", after, want); return false; }
                    // a worker that is not Ready after the sweep must not receive a pinned placement
                    if let Ok(plan) = c.plan_deploy_group(&c33_spec(Some(String::from("w0")))) {
                        if plan.tasks[0].worker_id == id && after != WorkerStatus::Ready { println!("  pinned pipeline placed on a {:?} worker", after); return false; }
                    }
                    // heartbeat
                    let mut c2 = c33_coord(&[st, 1], interval_s, timeout_s);
                    if c2.heartbeat(&id, &hb).is_err() { return false; }
                    let after_hb = c2.workers[&id].status.clone();
                    let want_hb = if status(st) == WorkerStatus::Unhealthy { WorkerStatus::Ready } else { status(st) };
                    if after_hb != want_hb { println!("  after heartbeat: status {:?}, expected {:?}", after_hb, want_hb); return false; }
                    true
                });
                if !good { ok = false; shown += 1; if shown >= 3 { return false; } }
            }
        }
    }
    ok
});
vpv_replay_table!(c33_is_available, c33_rr_empty, c33_rr_two, c33_rr_one, c33_ll_empty, c33_ll_two, c33_plan_placement, c33_heartbeat_and_sweep);
