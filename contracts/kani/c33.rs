// C33 — placement only on available workers (appended to varpulis-cluster/src/lib.rs)
// Contracts: is_available == (Ready with spare capacity); place() returns None iff there is no candidate, else the id
// of ONE OF THE CANDIDATES it was given (round-robin: exactly candidate[counter mod n], counter advanced by one).
use crate::worker::{WorkerCapacity, WorkerNode, WorkerStatus};
use crate::pipeline_group::PipelinePlacement;

#[cfg(kani)] pub fn stub_now() -> std::time::Instant { unsafe { std::mem::transmute::<(i64, u32), std::time::Instant>((1, 0)) } }
pub fn an_instant() -> std::time::Instant {
    #[cfg(kani)] { stub_now() }
    #[cfg(not(kani))] { std::time::Instant::now() }
}
pub fn status(k: u8) -> WorkerStatus { match k % 4 { 0 => WorkerStatus::Registering, 1 => WorkerStatus::Ready, 2 => WorkerStatus::Unhealthy, _ => WorkerStatus::Draining } }
pub fn worker(id: &str, st: u8, cores: usize, running: usize, max: usize) -> WorkerNode {
    WorkerNode { id: WorkerId(String::from(id)), address: String::new(), api_key: String::new(), status: status(st),
                 capacity: WorkerCapacity { cpu_cores: cores, pipelines_running: running, max_pipelines: max },
                 last_heartbeat: an_instant(), assigned_pipelines: Vec::new(), events_processed: 0 }
}
pub fn spec() -> PipelinePlacement { PipelinePlacement { name: String::new(), source: String::new(), worker_affinity: None, replicas: 1, partition_key: None } }

vpv_cell!(c33_is_available, "C33/WorkerNode::is_available/true exactly for Ready with spare capacity (never Unhealthy, Draining, Registering)",
  (st: u8, cores: usize, running: usize, max: usize), {
    let w = worker("w", st, cores, running, max);
    let r = w.is_available();
    let ok = r == (st % 4 == 1 && running < max);
    std::mem::forget(w);
    ok });

vpv_cell!(#[kani::unwind(4)] c33_rr_empty, "C33/RoundRobinPlacement::place/no candidate -> None", (c: usize), {
    let p = RoundRobinPlacement { counter: std::sync::atomic::AtomicUsize::new(c) };
    let r = p.place(&spec(), &[]);
    r.is_none() });

vpv_cell!(#[kani::unwind(4)] c33_rr_two, "C33/RoundRobinPlacement::place/2 candidates: picks candidate[counter mod 2] and advances the counter",
  (c: usize, s0: u8, s1: u8, r0: usize, r1: usize), {
    let (w0, w1) = (worker("a", s0, 1, r0, 8), worker("b", s1, 1, r1, 8));
    let p = RoundRobinPlacement { counter: std::sync::atomic::AtomicUsize::new(c) };
    let r = p.place(&spec(), &[&w0, &w1]);
    let want = if c % 2 == 0 { "a" } else { "b" };
    let ok = matches!(&r, Some(id) if id.0 == want) && p.counter.load(std::sync::atomic::Ordering::Relaxed) == c.wrapping_add(1);
    std::mem::forget(r); std::mem::forget(w0); std::mem::forget(w1);
    ok });

vpv_cell!(#[kani::unwind(4)] c33_rr_one, "C33/RoundRobinPlacement::place/1 candidate: picks it", (c: usize, s0: u8), {
    let w0 = worker("a", s0, 1, 0, 8);
    let p = RoundRobinPlacement { counter: std::sync::atomic::AtomicUsize::new(c) };
    let r = p.place(&spec(), &[&w0]);
    let ok = matches!(&r, Some(id) if id.0 == "a");
    std::mem::forget(r); std::mem::forget(w0);
    ok });

vpv_cell!(#[kani::unwind(4)] c33_ll_empty, "C33/LeastLoadedPlacement::place/no candidate -> None", (), {
    LeastLoadedPlacement.place(&spec(), &[]).is_none() });

vpv_cell!(#[kani::unwind(4)] c33_ll_two, "C33/LeastLoadedPlacement::place/2 candidates with equal core counts: returns one of them, the strictly less loaded one",
  (r0: usize, r1: usize), {
    let (w0, w1) = (worker("a", 1, 1, r0, usize::MAX), worker("b", 1, 1, r1, usize::MAX));
    let r = LeastLoadedPlacement.place(&spec(), &[&w0, &w1]);
    let is_a = matches!(&r, Some(id) if id.0 == "a");
    let is_b = matches!(&r, Some(id) if id.0 == "b");
    let ok = (is_a || is_b) && (r0 == r1 || (is_a == (r0 < r1)));
    std::mem::forget(r); std::mem::forget(w0); std::mem::forget(w1);
    ok });

vpv_replay_table!(c33_is_available, c33_rr_empty, c33_rr_two, c33_rr_one, c33_ll_empty, c33_ll_two);
