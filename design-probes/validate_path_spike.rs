use vstd::prelude::*;
use std::path::{Path, PathBuf};
verus! {
#[verifier::external_type_specification]
#[verifier::external_body]
pub struct ExPathBuf(PathBuf);
#[verifier::external_type_specification]
#[verifier::external_body]
pub struct ExPath(Path);
#[verifier::external_type_specification]
#[verifier::external_body]
pub struct ExIoError(std::io::Error);

pub uninterp spec fn canon_ok(p: &Path) -> bool;
pub uninterp spec fn canon(p: &Path) -> PathBuf;

pub assume_specification[ Path::canonicalize ](p: &Path) -> (r: std::io::Result<PathBuf>)
    ensures r.is_ok() == canon_ok(p), r.is_ok() ==> r.unwrap() == canon(p);

#[verifier::external_type_specification]
#[verifier::external_body]
pub struct ExDisplay<'a>(std::path::Display<'a>);

pub uninterp spec fn abs(p: &Path) -> bool;
pub uninterp spec fn under(p: &Path, base: &Path) -> bool;

pub uninterp spec fn as_path<P>(q: P) -> &'static Path;
pub uninterp spec fn joined(base: &Path, rel: &Path) -> PathBuf;
pub uninterp spec fn from_str(s: &str) -> PathBuf;
pub uninterp spec fn pb(p: &PathBuf) -> &Path;
pub assume_specification[ <PathBuf as std::ops::Deref>::deref ](p: &PathBuf) -> (r: &Path) ensures r == pb(p);

pub assume_specification[ Path::is_absolute ](p: &Path) -> (r: bool) ensures r == abs(p);
pub assume_specification<P: AsRef<Path>>[ Path::join::<P> ](p: &Path, q: P) -> (r: PathBuf) ensures r == joined(p, as_path(q));
pub assume_specification<'a>[ Path::display ](p: &'a Path) -> (r: std::path::Display<'a>);
pub assume_specification<P: AsRef<Path>>[ Path::starts_with::<P> ](p: &Path, q: P) -> (r: bool) ensures r == under(p, as_path(q));

#[derive(Debug, Clone, PartialEq)]
pub enum SecurityError {
    PathTraversal { path: String },
    InvalidPath { path: String, reason: String },
    InvalidWorkdir { path: String, reason: String },
}
pub type SecurityResult<T> = Result<T, SecurityError>;

pub fn validate_path(path: &str, workdir: &Path) -> (res: SecurityResult<PathBuf>)
    ensures res.is_ok() ==> exists|a: PathBuf, w: PathBuf| {
        &&& canon_ok(workdir) && w == canon(workdir)
        &&& canon_ok(pb(&a)) && res.unwrap() == canon(pb(&a))
        &&& under(pb(&res.unwrap()), as_path(&w))
    }
{
    let requested = PathBuf::from(path);

    // Resolve to absolute path
    let absolute = if requested.is_absolute() {
        requested
    } else {
        workdir.join(&requested)
    };

    // Canonicalize workdir first to ensure it's valid
    let workdir_canonical = workdir
        .canonicalize()
        .map_err(|e| SecurityError::InvalidWorkdir {
            path: workdir.display().to_string(),
            reason: e.to_string(),
        })?;

    // Canonicalize to resolve .. and symlinks
    let canonical = absolute
        .canonicalize()
        .map_err(|e| SecurityError::InvalidPath {
            path: path.to_string(),
            reason: e.to_string(),
        })?;

    // Ensure the canonical path starts with workdir
    if !canonical.starts_with(&workdir_canonical) {
        return Err(SecurityError::PathTraversal {
            path: path.to_string(),
        });
    }

    Ok(canonical)
}
}
fn main(){}
