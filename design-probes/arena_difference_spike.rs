use vstd::prelude::*;
verus! {

#[derive(Clone, Copy, PartialEq, Eq, Structural)]
pub enum ZddRef { Empty, Base, Node(u32) }

#[derive(Clone, Copy, PartialEq, Eq, Structural)]
pub struct ZddNode { pub var: u32, pub lo: ZddRef, pub hi: ZddRef }

impl ZddNode {
    pub fn new(var: u32, lo: ZddRef, hi: ZddRef) -> (r: Self)
        ensures r.var == var, r.lo == lo, r.hi == hi
    { Self { var, lo, hi } }
}

// ---------------- assumed contract: FxHashMap<K,V> (rule R2) ----------------
#[verifier::external_body]
#[verifier::accept_recursive_types(K)]
#[verifier::accept_recursive_types(V)]
pub struct VMap<K, V> { k: core::marker::PhantomData<K>, v: core::marker::PhantomData<V> }
impl<K, V> VMap<K, V> {
    pub uninterp spec fn view(&self) -> Map<K, V>;
    #[verifier::external_body]
    pub fn new() -> (r: Self) ensures r@ == Map::<K,V>::empty() { unimplemented!() }
    #[verifier::external_body]
    pub fn get(&self, k: &K) -> (r: Option<&V>)
        ensures match r { Some(v) => self@.contains_key(*k) && *v == self@[*k], None => !self@.contains_key(*k) }
    { unimplemented!() }
    #[verifier::external_body]
    pub fn insert(&mut self, k: K, v: V)
        ensures final(self)@ == old(self)@.insert(k, v)
    { unimplemented!() }
}

#[verifier::external_body]
pub fn zddref_le(a: ZddRef, b: ZddRef) -> bool { unimplemented!() }

pub fn unreached() -> (r: ZddRef) requires false { ZddRef::Empty }

pub struct UniqueTable { pub nodes: Vec<ZddNode>, pub index: VMap<ZddNode, u32> }

pub open spec fn rank(r: ZddRef) -> int { match r { ZddRef::Node(id) => id as int + 1, _ => 0 } }
pub open spec fn valid(r: ZddRef, n: int) -> bool { rank(r) <= n }
pub open spec fn top(nodes: Seq<ZddNode>, r: ZddRef) -> int {
    match r { ZddRef::Node(id) => nodes[id as int].var as int, _ => 0x1_0000_0000 }
}
pub open spec fn node_ok(nodes: Seq<ZddNode>, i: int) -> bool {
    let nd = nodes[i];
    &&& valid(nd.lo, i) && valid(nd.hi, i)
    &&& nd.hi != ZddRef::Empty
    &&& (nd.var as int) < top(nodes, nd.lo)
    &&& (nd.var as int) < top(nodes, nd.hi)
}
pub open spec fn nodes_ok(nodes: Seq<ZddNode>) -> bool {
    forall|i: int| 0 <= i < nodes.len() ==> #[trigger] node_ok(nodes, i)
}

pub open spec fn mem(nodes: Seq<ZddNode>, r: ZddRef, s: Set<u32>) -> bool
    decreases rank(r)
{
    match r {
        ZddRef::Empty => false,
        ZddRef::Base => s =~= Set::<u32>::empty(),
        ZddRef::Node(id) => {
            if (id as int) < nodes.len() && valid(nodes[id as int].lo, id as int) && valid(nodes[id as int].hi, id as int) {
                let nd = nodes[id as int];
                mem(nodes, nd.lo, s) || (s.contains(nd.var) && mem(nodes, nd.hi, s.remove(nd.var)))
            } else { false }
        }
    }
}

impl UniqueTable {
    pub open spec fn wf(&self) -> bool {
        &&& self.nodes.len() < 0xFFFF_FFFF
        &&& nodes_ok(self.nodes@)
        &&& forall|i: int| 0 <= i < self.nodes.len() ==> self.index@.contains_key(#[trigger] self.nodes@[i]) && self.index@[self.nodes@[i]] == i
        &&& forall|k: ZddNode| #[trigger] self.index@.contains_key(k) ==> (self.index@[k] as int) < self.nodes.len() && self.nodes@[self.index@[k] as int] == k
    }
}

pub open spec fn same_old(n1: Seq<ZddNode>, n2: Seq<ZddNode>) -> bool {
    &&& n1.len() <= n2.len()
    &&& forall|i: int| 0 <= i < n1.len() ==> n1[i] == n2[i]
}

pub proof fn lemma_frame(n1: Seq<ZddNode>, n2: Seq<ZddNode>, r: ZddRef, s: Set<u32>)
    requires same_old(n1, n2), valid(r, n1.len() as int),
    ensures mem(n2, r, s) == mem(n1, r, s),
    decreases rank(r)
{
    match r {
        ZddRef::Node(id) => {
            let nd = n1[id as int];
            assert(n2[id as int] == nd);
            if valid(nd.lo, id as int) && valid(nd.hi, id as int) {
                lemma_frame(n1, n2, nd.lo, s);
                lemma_frame(n1, n2, nd.hi, s.remove(nd.var));
            }
        }
        _ => {}
    }
}

pub open spec fn frame(n1: Seq<ZddNode>, n2: Seq<ZddNode>) -> bool {
    &&& same_old(n1, n2)
    &&& forall|r: ZddRef, s: Set<u32>| valid(r, n1.len() as int) ==> #[trigger] mem(n2, r, s) == mem(n1, r, s)
}

pub proof fn lemma_frame_all(n1: Seq<ZddNode>, n2: Seq<ZddNode>)
    requires same_old(n1, n2),
    ensures frame(n1, n2),
{
    assert forall|r: ZddRef, s: Set<u32>| valid(r, n1.len() as int) implies #[trigger] mem(n2, r, s) == mem(n1, r, s) by {
        lemma_frame(n1, n2, r, s);
    }
}

// ASSUMPTION (reported): the node table never reaches 2^32-1 entries (`len as u32` id allocation)
#[verifier::external_body]
pub proof fn axiom_table_capacity(t: &UniqueTable) ensures t.nodes.len() < 0xFFFF_FFFE {}

impl UniqueTable {
    pub fn get_or_create(&mut self, var: u32, lo: ZddRef, hi: ZddRef) -> (r: ZddRef)
        requires old(self).wf(),
            valid(lo, old(self).nodes.len() as int), valid(hi, old(self).nodes.len() as int),
            (var as int) < top(old(self).nodes@, lo), (var as int) < top(old(self).nodes@, hi),
        ensures final(self).wf(),
            valid(r, final(self).nodes.len() as int),
            frame(old(self).nodes@, final(self).nodes@),
            (var as int) <= top(final(self).nodes@, r),
            top(old(self).nodes@, lo) <= top(final(self).nodes@, r) || (var as int) == top(final(self).nodes@, r),
            forall|s: Set<u32>| #[trigger] mem(final(self).nodes@, r, s) ==
                (mem(old(self).nodes@, lo, s) || (s.contains(var) && mem(old(self).nodes@, hi, s.remove(var)))),
    {
        proof { lemma_frame_all(self.nodes@, self.nodes@); axiom_table_capacity(self); }
        // ZERO-SUPPRESSION RULE: if hi points to Empty, skip this node
        if hi == ZddRef::Empty {
            proof { assert forall|s: Set<u32>| !mem(self.nodes@, hi, s) by {} }
            return lo;
        }

        let node = ZddNode::new(var, lo, hi);

        // Check if node already exists
        if let Some(existing_id__r) = self.index.get(&node) {
            let existing_id = *existing_id__r;
            proof { assert(self.nodes@[existing_id as int] == node); assert(node_ok(self.nodes@, existing_id as int)); }
            return ZddRef::Node(existing_id);
        }

        // Create new node
        let id = self.nodes.len() as u32;
        self.nodes.push(node);
        self.index.insert(node, id);
        proof {
            let n1 = old(self).nodes@; let n2 = self.nodes@;
            lemma_frame_all(n1, n2);
            assert forall|i: int| 0 <= i < n2.len() implies #[trigger] node_ok(n2, i) by {
                if i < n1.len() {
                    assert(node_ok(n1, i));
                    assert(n2[i] == n1[i]);
                    assert(top(n2, n1[i].lo) == top(n1, n1[i].lo));
                    assert(top(n2, n1[i].hi) == top(n1, n1[i].hi));
                } else {
                    assert(i == id as int);
                    assert(n2[i] == node);
                    assert(top(n2, lo) == top(n1, lo));
                    assert(top(n2, hi) == top(n1, hi));
                }
            }
            assert(n2[id as int] == node);
            assert(!old(self).index@.contains_key(node));
            assert forall|i: int| 0 <= i < n2.len() implies self.index@.contains_key(#[trigger] n2[i]) && self.index@[n2[i]] == i by {
                if i < n1.len() { assert(old(self).index@.contains_key(n1[i])); assert(n1[i] != node); }
            }
            assert forall|k: ZddNode| #[trigger] self.index@.contains_key(k) implies (self.index@[k] as int) < n2.len() && n2[self.index@[k] as int] == k by {
                if k != node { assert(old(self).index@.contains_key(k)); }
            }
            assert forall|s: Set<u32>| #[trigger] mem(n2, ZddRef::Node(id), s) ==
                (mem(n1, lo, s) || (s.contains(var) && mem(n1, hi, s.remove(var)))) by {
                assert(mem(n2, lo, s) == mem(n1, lo, s));
                assert(mem(n2, hi, s.remove(var)) == mem(n1, hi, s.remove(var)));
            }
        }
        ZddRef::Node(id)
    }
}


impl UniqueTable {
    pub fn get_node(&self, id: u32) -> (r: &ZddNode)
        requires (id as int) < self.nodes.len(),
        ensures *r == self.nodes@[id as int],
    {
        &self.nodes[id as usize]
    }
}

pub fn get_node_info(r: ZddRef, table: &UniqueTable) -> (res: (Option<u32>, ZddRef, ZddRef))
    requires valid(r, table.nodes.len() as int),
    ensures match r {
        ZddRef::Empty => res == (None::<u32>, ZddRef::Empty, ZddRef::Empty),
        ZddRef::Base => res == (None::<u32>, ZddRef::Base, ZddRef::Empty),
        ZddRef::Node(id) => res == (Some(table.nodes@[id as int].var), table.nodes@[id as int].lo, table.nodes@[id as int].hi),
    }
{
    match r {
        ZddRef::Empty => (None, ZddRef::Empty, ZddRef::Empty),
        ZddRef::Base => (None, ZddRef::Base, ZddRef::Empty),
        ZddRef::Node(id) => {
            let node = table.get_node(id);
            (Some(node.var), node.lo, node.hi)
        }
    }
}

pub open spec fn cache_ok_union(c: Map<(ZddRef, ZddRef), ZddRef>, nodes: Seq<ZddNode>) -> bool {
    forall|a: ZddRef, b: ZddRef| #[trigger] c.contains_key((a, b)) ==> {
        &&& valid(a, nodes.len() as int) && valid(b, nodes.len() as int) && valid(c[(a, b)], nodes.len() as int)
        &&& top(nodes, c[(a,b)]) >= top(nodes, a) || top(nodes, c[(a,b)]) >= top(nodes, b)
        &&& forall|s: Set<u32>| #[trigger] mem(nodes, c[(a, b)], s) == (mem(nodes, a, s) || mem(nodes, b, s))
    }
}

pub open spec fn min(a: int, b: int) -> int { if a <= b { a } else { b } }

fn union_refs_rec(
    a: ZddRef,
    b: ZddRef,
    table: &mut UniqueTable,
    cache: &mut VMap<(ZddRef, ZddRef), ZddRef>,
) -> (r: ZddRef)
    requires old(table).wf(), valid(a, old(table).nodes.len() as int), valid(b, old(table).nodes.len() as int),
        cache_ok_union(old(cache)@, old(table).nodes@),
    ensures final(table).wf(), valid(r, final(table).nodes.len() as int),
        frame(old(table).nodes@, final(table).nodes@),
        cache_ok_union(final(cache)@, final(table).nodes@),
        top(final(table).nodes@, r) >= min(top(old(table).nodes@, a), top(old(table).nodes@, b)),
        forall|s: Set<u32>| #[trigger] mem(final(table).nodes@, r, s) == (mem(old(table).nodes@, a, s) || mem(old(table).nodes@, b, s)),
    decreases rank(a) + rank(b),
{
    proof { lemma_frame_all(table.nodes@, table.nodes@); }
    if a == ZddRef::Empty {
        return b;
    }
    if b == ZddRef::Empty {
        return a;
    }
    if a == b {
        return a;
    }

    let (a, b) = if zddref_le(a, b) { (a, b) } else { (b, a) };

    if let Some(cached__r) = cache.get(&(a, b)) {
        let cached = *cached__r;
        return cached;
    }

    if a == ZddRef::Base && b == ZddRef::Base {
        return ZddRef::Base;
    }

    let (a_var, a_lo, a_hi) = get_node_info(a, table);
    let (b_var, b_lo, b_hi) = get_node_info(b, table);
    proof {
        if let ZddRef::Node(ia) = a { assert(node_ok(table.nodes@, ia as int)); }
        if let ZddRef::Node(ib) = b { assert(node_ok(table.nodes@, ib as int)); }
    }

    let result = match (a_var, b_var) {
        (Some(av), Some(bv)) => {
            if av < bv {
                let new_lo = union_refs_rec(a_lo, b, table, cache);
                table.get_or_create(av, new_lo, a_hi)
            } else if av > bv {
                let new_lo = union_refs_rec(a, b_lo, table, cache);
                table.get_or_create(bv, new_lo, b_hi)
            } else {
                let new_lo = union_refs_rec(a_lo, b_lo, table, cache);
                let new_hi = union_refs_rec(a_hi, b_hi, table, cache);
                table.get_or_create(av, new_lo, new_hi)
            }
        }
        (Some(av), None) => {
            let new_lo = union_refs_rec(a_lo, b, table, cache);
            table.get_or_create(av, new_lo, a_hi)
        }
        (None, Some(bv)) => {
            let new_lo = union_refs_rec(a, b_lo, table, cache);
            table.get_or_create(bv, new_lo, b_hi)
        }
        (None, None) => unreached(),
    };

    cache.insert((a, b), result);
    result
}



pub proof fn lemma_elems_ge_top(nodes: Seq<ZddNode>, r: ZddRef, s: Set<u32>, x: u32)
    requires nodes_ok(nodes), valid(r, nodes.len() as int), mem(nodes, r, s), s.contains(x),
    ensures (x as int) >= top(nodes, r),
    decreases rank(r)
{
    match r {
        ZddRef::Node(id) => {
            let nd = nodes[id as int];
            assert(node_ok(nodes, id as int));
            if mem(nodes, nd.lo, s) {
                lemma_elems_ge_top(nodes, nd.lo, s, x);
            } else {
                if x != nd.var {
                    lemma_elems_ge_top(nodes, nd.hi, s.remove(nd.var), x);
                }
            }
        }
        _ => {}
    }
}

pub open spec fn elems_ge(nodes: Seq<ZddNode>, r: ZddRef) -> bool {
    forall|s: Set<u32>, x: u32| #[trigger] mem(nodes, r, s) && #[trigger] s.contains(x) ==> (x as int) >= top(nodes, r)
}

pub proof fn lemma_elems_ge_all(nodes: Seq<ZddNode>, r: ZddRef)
    requires nodes_ok(nodes), valid(r, nodes.len() as int),
    ensures elems_ge(nodes, r),
{
    assert forall|s: Set<u32>, x: u32| #[trigger] mem(nodes, r, s) && #[trigger] s.contains(x) implies (x as int) >= top(nodes, r) by {
        lemma_elems_ge_top(nodes, r, s, x);
    }
}

pub open spec fn cache_ok_diff(c: Map<(ZddRef, ZddRef), ZddRef>, nodes: Seq<ZddNode>) -> bool {
    forall|a: ZddRef, b: ZddRef| #[trigger] c.contains_key((a, b)) ==> {
        &&& valid(a, nodes.len() as int) && valid(b, nodes.len() as int) && valid(c[(a, b)], nodes.len() as int)
        &&& top(nodes, c[(a,b)]) >= top(nodes, a)
        &&& forall|s: Set<u32>| #[trigger] mem(nodes, c[(a, b)], s) == (mem(nodes, a, s) && !mem(nodes, b, s))
    }
}

pub struct ZddArena { pub table: UniqueTable, pub difference_cache: VMap<(ZddRef, ZddRef), ZddRef> }

impl ZddArena {
    pub open spec fn wf(&self) -> bool { self.table.wf() && cache_ok_diff(self.difference_cache@, self.table.nodes@) }

    fn get_node_info(&self, r: ZddRef) -> (res: (Option<u32>, ZddRef, ZddRef))
        requires valid(r, self.table.nodes.len() as int),
        ensures match r {
            ZddRef::Empty => res == (None::<u32>, ZddRef::Empty, ZddRef::Empty),
            ZddRef::Base => res == (None::<u32>, ZddRef::Base, ZddRef::Empty),
            ZddRef::Node(id) => res == (Some(self.table.nodes@[id as int].var), self.table.nodes@[id as int].lo, self.table.nodes@[id as int].hi),
        }
    {
        match r {
            ZddRef::Empty => (None, ZddRef::Empty, ZddRef::Empty),
            ZddRef::Base => (None, ZddRef::Base, ZddRef::Empty),
            ZddRef::Node(id) => {
                let node = self.table.get_node(id);
                (Some(node.var), node.lo, node.hi)
            }
        }
    }

    fn difference_refs(&mut self, a: ZddRef, b: ZddRef) -> (r: ZddRef)
        requires old(self).wf(), valid(a, old(self).table.nodes.len() as int), valid(b, old(self).table.nodes.len() as int),
        ensures final(self).wf(), valid(r, final(self).table.nodes.len() as int),
            frame(old(self).table.nodes@, final(self).table.nodes@),
            top(final(self).table.nodes@, r) >= top(old(self).table.nodes@, a),
            forall|s: Set<u32>| #[trigger] mem(final(self).table.nodes@, r, s) == (mem(old(self).table.nodes@, a, s) && !mem(old(self).table.nodes@, b, s)),
        decreases rank(a) + rank(b),
    {
        proof { lemma_frame_all(self.table.nodes@, self.table.nodes@); }

        // Terminal cases
        if a == ZddRef::Empty {
            return ZddRef::Empty;
        }
        if b == ZddRef::Empty {
            return a;
        }
        if a == b {
            return ZddRef::Empty;
        }

        // Check persistent cache (not commutative, no normalization)
        if let Some(cached__r) = self.difference_cache.get(&(a, b)) {
            let cached = *cached__r;
            return cached;
        }

        let (a_var, a_lo, a_hi) = self.get_node_info(a);
        let (b_var, b_lo, b_hi) = self.get_node_info(b);
        proof {
            if let ZddRef::Node(ia) = a { assert(node_ok(self.table.nodes@, ia as int)); }
            if let ZddRef::Node(ib) = b { assert(node_ok(self.table.nodes@, ib as int)); }
            lemma_elems_ge_all(self.table.nodes@, a); lemma_elems_ge_all(self.table.nodes@, b);
            lemma_elems_ge_all(self.table.nodes@, a_lo); lemma_elems_ge_all(self.table.nodes@, a_hi);
            lemma_elems_ge_all(self.table.nodes@, b_lo); lemma_elems_ge_all(self.table.nodes@, b_hi);
        }
        let ghost n0 = self.table.nodes@;

        let result = match (a_var, b_var) {
            (Some(av), Some(bv)) => {
                if av < bv {
                    let new_lo = self.difference_refs(a_lo, b);
                    let new_hi = self.difference_refs(a_hi, b);
                    self.table.get_or_create(av, new_lo, new_hi)
                } else if av > bv {
                    // b has bv but a doesn't, only b_lo can match a
                    self.difference_refs(a, b_lo)
                } else {
                    let new_lo = self.difference_refs(a_lo, b_lo);
                    let new_hi = self.difference_refs(a_hi, b_hi);
                    self.table.get_or_create(av, new_lo, new_hi)
                }
            }
            (Some(av), None) => {
                if b == ZddRef::Base {
                    // Remove empty set from a
                    let new_lo = self.difference_refs(a_lo, ZddRef::Base);
                    self.table.get_or_create(av, new_lo, a_hi)
                } else {
                    a
                }
            }
            (None, Some(_)) => {
                if a == ZddRef::Base {
                    // Check if empty set is in b
                    self.difference_refs(ZddRef::Base, b_lo)
                } else {
                    ZddRef::Empty
                }
            }
            (None, None) => {
                if a == ZddRef::Base && b == ZddRef::Base {
                    ZddRef::Empty
                } else {
                    a
                }
            }
        };

        proof {
            let n1 = self.table.nodes@;
            assert forall|s: Set<u32>| #[trigger] mem(n1, result, s) == (mem(n0, a, s) && !mem(n0, b, s)) by {
                match a {
                    ZddRef::Node(ia) => {
                        let na = n0[ia as int];
                        match b {
                            ZddRef::Node(ib) => {
                                let nb = n0[ib as int];
                                if na.var < nb.var {
                                    if s.contains(na.var) {
                                        if mem(n0, b, s) { lemma_elems_ge_top(n0, b, s, na.var); }
                                        if mem(n0, na.lo, s) { lemma_elems_ge_top(n0, na.lo, s, na.var); }
                                    }
                                } else if na.var > nb.var {
                                    if s.contains(nb.var) {
                                        if mem(n0, a, s) { lemma_elems_ge_top(n0, a, s, nb.var); }
                                        if mem(n0, nb.lo, s) { lemma_elems_ge_top(n0, nb.lo, s, nb.var); }
                                    }
                                } else {
                                    if s.contains(na.var) {
                                        if mem(n0, na.lo, s) { lemma_elems_ge_top(n0, na.lo, s, na.var); }
                                        if mem(n0, nb.lo, s) { lemma_elems_ge_top(n0, nb.lo, s, na.var); }
                                    }
                                }
                            }
                            _ => {
                                // b is Base: only the empty set is removed
                                if s.contains(na.var) { assert(!(s =~= Set::<u32>::empty())); }
                            }
                        }
                    }
                    _ => {
                        // a is Base
                        match b {
                            ZddRef::Node(ib) => {
                                let nb = n0[ib as int];
                                if s =~= Set::<u32>::empty() { assert(!s.contains(nb.var)); }
                            }
                            _ => {}
                        }
                    }
                }
            }
        }
        self.difference_cache.insert((a, b), result);
        result
    }
}

} // verus!
fn main() {}
